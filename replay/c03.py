"""C03 concretiser: the bounded checks of storage_checks on the real storages, plus connection-level scenarios.
Bound (connection level): file and demo storage; a resolvable counter whose base revision is packed away while the
writer's transaction is open; readCurrent on an object another connection changes, with and without a savepoint
rollback (explicit rollback of an earlier savepoint / rollback of a savepoint taken before the connection joined)
between the declaration and the commit."""
import logging
import os
import shutil
import tempfile
import time

import transaction
from persistent import Persistent

from . import storage_checks
from .c10 import Counter


class Cell(Persistent):
    def __init__(self, v=0):
        self.v = v


def fail(inp, exp, obs, cases):
    return {'found': True, 'input': inp, 'expected': exp, 'observed': obs, 'cases': cases}


def connection_scenarios():
    import ZODB
    from ZODB.DemoStorage import DemoStorage
    from ZODB.POSException import ConflictError, ReadConflictError
    cases = 0
    for kind in ('file', 'demo'):
        d = tempfile.mkdtemp(prefix='c03c-')
        try:
            if kind == 'file':
                from ZODB.FileStorage import FileStorage
                st = FileStorage(os.path.join(d, 'Data.fs'))
            else:
                st = DemoStorage()
            db = ZODB.DB(st)
            tm0 = transaction.TransactionManager()
            c0 = db.open(tm0)
            c0.root()['c'] = Counter()
            c0.root()['x'] = Cell(100)
            c0.root()['y'] = Cell(0)
            tm0.commit()
            c0.root()['c'].value = 1
            tm0.commit()
            # ---- the writer's base revision is packed away while its transaction is open
            tmA, tmB = transaction.TransactionManager(), transaction.TransactionManager()
            cA, cB = db.open(tmA), db.open(tmB)
            a = cA.root()['c']
            base = a.value
            cB.root()['c'].value += 2
            tmB.commit()
            time.sleep(0.01)
            try:
                db.pack(time.time())
                packed = True
            except Exception:  # noqa
                packed = False
            a.value += 5
            cases += 1
            try:
                tmA.commit()
                out = 'committed'
            except ConflictError:
                tmA.abort()
                out = 'conflict'
            c0.sync()
            val = c0.root()['c'].value
            ok = (out == 'conflict' and val == base + 2) or (out == 'committed' and val == base + 7)
            if not ok:
                return fail({'storage': kind, 'scenario': 'writer A reads a resolvable counter (%d); B adds 2 and commits; '
                             'pack removes the revision A started from; A adds 5 and commits' % base, 'packed': packed},
                            'ConflictError with %d stored, or the merge %d' % (base + 2, base + 7),
                            '%s, value %d (the other writer\'s change is lost)' % (out, val), cases)
            cA.close()
            cB.close()
            # ---- declared read dependencies survive savepoint rollbacks
            for how in ('none', 'rollback-earlier-savepoint', 'rollback-savepoint-taken-before-joining'):
                tmA, tmB = transaction.TransactionManager(), transaction.TransactionManager()
                cA, cB = db.open(tmA), db.open(tmB)
                tmA.begin()
                if how == 'rollback-savepoint-taken-before-joining':
                    sp = tmA.savepoint()
                    x = cA.root()['x']
                    x.v
                    cA.readCurrent(x)
                    cA.root()['y'].v = -1
                    sp.rollback()
                else:
                    x = cA.root()['x']
                    x.v
                    cA.readCurrent(x)
                    if how == 'rollback-earlier-savepoint':
                        sp = tmA.savepoint()
                        cA.root()['y'].v = -1
                        sp.rollback()
                if how == 'rollback-savepoint-taken-before-joining':
                    # the declaration itself was made after the savepoint: redo it, as a program would
                    x = cA.root()['x']
                    cA.readCurrent(x)
                    sp2 = tmA.savepoint()
                    cA.root()['y'].v = -2
                    sp2.rollback()
                cA.root()['y'].v = x.v * 2
                cB.root()['x'].v += 1
                tmB.commit()
                cases += 1
                try:
                    tmA.commit()
                    out = 'committed'
                except ReadConflictError:
                    tmA.abort()
                    out = 'read-conflict'
                except ConflictError:
                    tmA.abort()
                    out = 'conflict'
                c0.sync()
                if out == 'committed':
                    return fail({'storage': kind, 'scenario': 'A: readCurrent(x); savepoint handling: %s; y = 2*x; '
                                 'B changes x and commits; A commits' % how},
                                'ReadConflictError, nothing stored', 'commit accepted, y == %r derived from the stale x'
                                % c0.root()['y'].v, cases)
                cA.close()
                cB.close()
            c0.close()
            db.close()
        finally:
            shutil.rmtree(d, ignore_errors=True)
    return {'found': False, 'cases': cases}


def search(func, candidate, seed, tier, obligation=''):
    logging.disable(logging.CRITICAL)
    r = storage_checks.check_c03(seed, tier)
    if r.get('found'):
        return r
    r2 = connection_scenarios()
    r2['cases'] = r2.get('cases', 0) + r.get('cases', 0)
    return r2
