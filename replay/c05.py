"""C05 concretiser: runs the bounded checks of storage_checks on the real storages"""
import logging

from . import storage_checks


def search(func, candidate, seed, tier, obligation=''):
    logging.disable(logging.CRITICAL)
    return storage_checks.check_c05(seed, tier)
