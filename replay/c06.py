"""C06 concretiser (family S/P): undo through a real DB on FileStorage against a model.
Bound: fixed scenarios (undo of the last change, of a creation, with an intervening equal change, with a
mergeable change (class resolver), with a conflicting change (refused, nothing changes), several
transactions in one undo on the same and on different objects (every order), undo of an undo, undo after
reopen, undo seen by another connection at its next boundary) + 40 (thorough: 400) random histories of <= 6
transactions over 3 objects with a random undo; model = replay of the history without the undone
transaction when the later changes commute (plain objects: only if no later change to the same object)."""
import logging
import os
import random
import shutil
import tempfile

import transaction
from persistent import Persistent

import ZODB
from ZODB.POSException import MultipleUndoErrors, UndoError


class Plain(Persistent):
    def __init__(self, v=0):
        self.v = v


class Counter(Persistent):
    def __init__(self):
        self.v = 0

    def _p_resolveConflict(self, old, committed, new):
        m = dict(committed)
        m['v'] = committed['v'] + new['v'] - old['v']
        return m


def fail(inp, exp, obs, cases):
    return {'found': True, 'input': inp, 'expected': exp, 'observed': obs, 'cases': cases}


class World:
    def __init__(self):
        self.dir = tempfile.mkdtemp(prefix='c06-')
        from ZODB.FileStorage import FileStorage
        self.path = os.path.join(self.dir, 'Data.fs')
        self.db = ZODB.DB(FileStorage(self.path))
        self.tm = transaction.TransactionManager()
        self.conn = self.db.open(self.tm)
        self.ids = []

    def commit(self):
        self.tm.commit()
        self.ids.append(self.db.undoLog(0, 1)[0]['id'])
        return self.ids[-1]

    def state(self, conn=None):
        conn = conn or self.conn
        conn.sync()
        r = conn.root()
        return {k: r[k].v for k in sorted(r.keys())}

    def undo(self, ids):
        try:
            self.db.undoMultiple(ids, self.tm.get())
            self.commit()
            return None
        except (UndoError, MultipleUndoErrors) as e:
            self.tm.abort()
            return type(e).__name__

    def reopen(self):
        from ZODB.FileStorage import FileStorage
        self.conn.close()
        self.db.close()
        self.db = ZODB.DB(FileStorage(self.path))
        self.conn = self.db.open(self.tm)

    def close(self):
        try:
            self.tm.abort()
            self.conn.close()
            self.db.close()
        finally:
            shutil.rmtree(self.dir, ignore_errors=True)


def scenario(name):
    w = World()
    try:
        r = w.conn.root()
        r['p'], r['q'], r['c'] = Plain(0), Plain(0), Counter()
        w.commit()
        if name == 'last-change':
            r['p'].v = 1
            t = w.commit()
            err = w.undo([t])
            return err, w.state(), {'c': 0, 'p': 0, 'q': 0}
        if name == 'creation':
            r['n'] = Plain(5)
            t = w.commit()
            err = w.undo([t])
            return err, w.state(), {'c': 0, 'p': 0, 'q': 0}
        if name == 'equal-later-change':
            r['p'].v = 1
            t1 = w.commit()
            r['q'].v = 9
            w.commit()
            err = w.undo([t1])
            return err, w.state(), {'c': 0, 'p': 0, 'q': 9}
        if name == 'mergeable-later-change':
            r['c'].v += 2
            t1 = w.commit()
            r['c'].v += 5
            w.commit()
            err = w.undo([t1])
            return err, w.state(), {'c': 5, 'p': 0, 'q': 0}
        if name.startswith('two-mergeable-in-one-undo'):
            r['c'].v += 2
            t1 = w.commit()
            r['c'].v += 5
            t2 = w.commit()
            r['c'].v += 10
            w.commit()
            err = w.undo([t1, t2] if name.endswith('a') else [t2, t1])
            return err, w.state(), {'c': 10, 'p': 0, 'q': 0}
        if name == 'conflicting-later-change':
            r['p'].v = 1
            t1 = w.commit()
            r['p'].v = 2
            w.commit()
            before = w.state()
            err = w.undo([t1])
            return ('refused' if err else 'accepted'), w.state(), before
        if name.startswith('two-in-one-undo'):
            r['p'].v = 1
            t1 = w.commit()
            r['p'].v = 2
            t2 = w.commit()
            order = [t2, t1] if name.endswith('a') else [t1, t2]
            err = w.undo(order)
            if name.endswith('a'):
                st1 = w.state()
                err2 = w.undo([w.ids[-1]])      # undo of that undo restores the state before it
                return err or err2, (st1, w.state()), ({'c': 0, 'p': 0, 'q': 0}, {'c': 0, 'p': 2, 'q': 0})
            return ('refused' if err else 'accepted'), w.state(), {'c': 0, 'p': 0, 'q': 0} if not err else {'c': 0, 'p': 2, 'q': 0}
        if name == 'two-objects-in-one-undo':
            r['p'].v = 1
            t1 = w.commit()
            r['q'].v = 7
            t2 = w.commit()
            err = w.undo([t1, t2])
            return err, w.state(), {'c': 0, 'p': 0, 'q': 0}
        if name == 'undo-of-undo':
            r['p'].v = 1
            t1 = w.commit()
            w.undo([t1])
            err = w.undo([w.ids[-1]])
            return err, w.state(), {'c': 0, 'p': 1, 'q': 0}
        if name == 'after-reopen':
            r['p'].v = 1
            t1 = w.commit()
            w.reopen()
            err = w.undo([t1])
            return err, w.state(), {'c': 0, 'p': 0, 'q': 0}
        if name == 'stale-id-of-a-packed-transaction':
            import time
            r['n'] = Plain(5)
            w.commit()
            r['p'].v = 1
            w.commit()
            r['p'].v = 2
            r['n'].v = 6
            t3 = w.commit()
            time.sleep(0.01)
            w.db.pack(time.time())
            before = w.state()
            err = w.undo([t3])
            w.conn.cacheMinimize()
            return ('refused' if err else 'accepted'), w.state(), before
        if name == 'other-connection':
            r['p'].v = 1
            t1 = w.commit()
            tm2 = transaction.TransactionManager()
            c2 = w.db.open(tm2)
            seen0 = c2.root()['p'].v
            err = w.undo([t1])
            tm2.abort()          # boundary
            seen1 = c2.root()['p'].v
            c2.close()
            return err, (seen0, seen1), (1, 0)
    finally:
        w.close()


SCENARIOS = ['last-change', 'creation', 'equal-later-change', 'mergeable-later-change',
             'two-mergeable-in-one-undo-a', 'two-mergeable-in-one-undo-b',
             'conflicting-later-change', 'two-in-one-undo-a', 'two-in-one-undo-b', 'two-objects-in-one-undo',
             'undo-of-undo', 'after-reopen', 'other-connection', 'stale-id-of-a-packed-transaction']


def random_history(rnd):
    w = World()
    try:
        r = w.conn.root()
        names = ['p', 'q', 'c']
        r['p'], r['q'], r['c'] = Plain(0), Plain(0), Counter()
        w.commit()
        hist = []
        for _ in range(rnd.randint(2, 6)):
            n = rnd.choice(names)
            d = rnd.randint(1, 9)
            if n == 'c':
                r[n].v += d
                hist.append((n, 'add', d))
            else:
                r[n].v = r[n].v * 10 + d
                hist.append((n, 'set', r[n].v))
            w.commit()
        k = rnd.randrange(len(hist))
        n, kind, d = hist[k]
        later_same = [h for h in hist[k + 1:] if h[0] == n]
        before = w.state()
        err = w.undo([w.ids[k + 1]])
        after = w.state()
        inp = {'history': hist, 'undo_transaction': k}
        if kind == 'add':
            exp = dict(before)
            exp['c'] -= d
            if err or after != exp:
                return inp, 'counter change undone through the class merge: %r' % exp, '%s %r' % (err, after)
        elif not later_same:
            exp = dict(before)
            prev = [h for h in hist[:k] if h[0] == n]
            exp[n] = prev[-1][2] if prev else 0
            if err or after != exp:
                return inp, 'state before the undone transaction: %r' % exp, '%s %r' % (err, after)
        else:
            if not err or after != before:
                return inp, 'UndoError and nothing changed', '%s %r' % (err, after)
        return None
    finally:
        w.close()


def search(func, candidate, seed, tier, obligation=''):
    logging.disable(logging.CRITICAL)
    cases = 0
    for name in SCENARIOS:
        cases += 1
        try:
            err, got, exp = scenario(name)
        except Exception as e:  # noqa
            return fail({'scenario': name}, 'scenario runs', '%s: %s' % (type(e).__name__, str(e)[:200]), cases)
        if name in ('conflicting-later-change', 'stale-id-of-a-packed-transaction'):
            if err != 'refused' or got != exp:
                return fail({'scenario': name}, 'UndoError and nothing changed (%r)' % (exp,),
                            '%s; state %r' % (err, got), cases)
        elif name == 'two-in-one-undo-b':
            if got != exp:
                return fail({'scenario': name}, 'either both undone or refused unchanged: %r' % (exp,),
                            '%s; state %r' % (err, got), cases)
        elif err or got != exp:
            return fail({'scenario': name}, 'state %r' % (exp,), 'error %r; state %r' % (err, got), cases)
    rnd = random.Random(seed)
    for _ in range(40 if tier == 'quick' else 400):
        cases += 1
        try:
            r = random_history(rnd)
        except Exception as e:  # noqa
            r = ({}, 'history runs', '%s: %s' % (type(e).__name__, str(e)[:200]))
        if r:
            return fail(r[0], r[1], r[2], cases)
    return {'found': False, 'cases': cases}
