"""C07 concretiser (bounded): packing a real storage against a before/after model.

For a history built through a real DB (persistent objects with references, so that referencesf works on
real pickles) and a pack time T (just after any transaction, or before the first), with gc on/off:

  * for every database state from T on (the state as of the last transaction <= T and of every later
    one) and every object reachable from the root in that state: loadBefore(oid, tid+1) returns the
    same (data, serial, end) after the pack as before it;
  * the transactions after T are iterated with the same ids and records (data compared after back
    pointers are resolved) and listed by undoLog; undoing the last one gives the same state as on an
    unpacked copy;
  * the same holds after close + reopen (with and without the index file);
  * packing again to the same and to an earlier time leaves the file bytes unchanged;
  * packing an empty database changes nothing.

Bound: 7 fixed histories (incl. undo records pointing across the pack time from a garbage object, two
level back-pointer chains, cycles, garbage, un-creation) + 12 (thorough: 120) random histories of <= 8
transactions over <= 6 objects (link, unlink, modify, undo of an earlier transaction), every pack
position, gc on and off; FileStorage fully, MappingStorage for the first bullet."""
import logging
import os
import random
import shutil
import tempfile
import time

import transaction
from persistent import Persistent

import ZODB
from ZODB import POSException
from ZODB.MappingStorage import MappingStorage
from ZODB.serialize import referencesf
from ZODB.utils import p64, u64, z64
from persistent.TimeStamp import TimeStamp


class Node(Persistent):
    def __init__(self, v=0):
        self.v = v
        self.refs = {}


REFUSED = []     # packs refused with an exception (allowed when nothing changed)


def fail(inp, exp, obs, cases):
    return {'found': True, 'input': inp, 'expected': exp, 'observed': obs, 'cases': cases}


class Clock:
    def __init__(self):
        self.now = 1.7e9
        self.real = time.time

    def __enter__(self):
        time.time = lambda: self.now
        return self

    def __exit__(self, *a):
        time.time = self.real

    def tick(self, dt=10):
        self.now += dt


# --------------------------------------------------------------------------------------
# histories: lists of steps, each step one transaction
#   ('new', parent, name)  ('set', name, v)  ('link', parent, name)  ('unlink', parent, name)
#   ('undo', k)   undo the k-th transaction of the history (0 = the first step)
# objects are named; 'root' is the root
# --------------------------------------------------------------------------------------
FIXED = [
    ('undo-revives-garbage-that-references-garbage',          # F15
     [('new', 'root', 'x'), ('new', 'x', 'y'), ('multi', [('unlink', 'x', 'y'), ('unlink', 'root', 'x')]),
      ('undo', 2)], [2]),
    ('two-level-back-pointer-chain',
     [('new', 'root', 'a'), ('new', 'a', 'c'), ('unlink', 'a', 'c'), ('undo', 2), ('unlink', 'a', 'c'),
      ('undo', 4)], [5, 1]),
    ('cycle-and-garbage',
     [('new', 'root', 'a'), ('new', 'a', 'b'), ('link', 'b', 'a'), ('unlink', 'root', 'a'),
      ('new', 'root', 'c')], [2, 3, 4]),
    ('modify-after-pack-time',
     [('new', 'root', 'a'), ('set', 'a', 1), ('set', 'a', 2), ('set', 'a', 3)], [0, 1, 2, 3]),
    ('undo-across-pack-time',
     [('new', 'root', 'a'), ('set', 'a', 1), ('set', 'a', 2), ('undo', 2), ('set', 'a', 5)], [2, 3]),
    ('undo-of-creation',
     [('new', 'root', 'a'), ('new', 'a', 'b'), ('undo', 1), ('set', 'a', 3)], [1, 2, 3]),
    ('relink-garbage-after-pack-time-with-write',
     [('new', 'root', 'a'), ('new', 'a', 'b'), ('unlink', 'a', 'b'),
      ('multi', [('link', 'root', 'b'), ('set', 'b', 9)])], [2]),
]


class Run:
    def __init__(self, kind):
        self.kind = kind
        self.dir = tempfile.mkdtemp(prefix='c07-')
        self.path = os.path.join(self.dir, 'Data.fs')
        if kind == 'file':
            from ZODB.FileStorage import FileStorage
            self.st = FileStorage(self.path)
        else:
            self.st = MappingStorage()
        self.db = ZODB.DB(self.st)
        self.tm = transaction.TransactionManager()
        self.conn = self.db.open(self.tm)
        self.objs = {'root': self.conn.root()}
        self.txn_ids = []     # undo ids per step
        self.tids = []        # tid per step
        self.tm.commit()

    def get(self, name):
        return self.objs[name]

    def refs_of(self, o):
        return o if o is self.objs['root'] else o.refs

    def op(self, step):
        k = step[0]
        if k == 'multi':
            for s in step[1]:
                self.op(s)
        elif k == 'new':
            n = Node()
            self.objs[step[2]] = n
            self.refs_of(self.get(step[1]))[step[2]] = n
            self.get(step[1])._p_changed = True
        elif k == 'set':
            self.get(step[1]).v = step[2]
        elif k == 'link':
            self.refs_of(self.get(step[1]))[step[2]] = self.get(step[2])
            self.get(step[1])._p_changed = True
        elif k == 'unlink':
            self.refs_of(self.get(step[1])).pop(step[2], None)
            self.get(step[1])._p_changed = True
        elif k == 'undo':
            self.db.undo(self.txn_ids[step[1]], self.tm.get())
        else:
            raise ValueError(step)

    def step(self, step, clock):
        clock.tick()
        try:
            self.op(step)
            self.tm.commit()
        except (POSException.UndoError, POSException.MultipleUndoErrors, KeyError, AttributeError,
                POSException.POSKeyError):
            self.tm.abort()
            self.conn.cacheMinimize()
            step = ('noop',)
            self.conn.root()['_noop'] = len(self.tids)
            self.tm.commit()
        self.tids.append(self.st.lastTransaction())
        if self.kind == 'file':
            self.txn_ids.append(self.db.undoLog(0, 1)[0]['id'])
        else:
            self.txn_ids.append(None)
        self.conn.cacheMinimize()
        return step

    def close(self):
        try:
            self.tm.abort()
            self.conn.close()
            self.db.close()
        except Exception:
            pass
        shutil.rmtree(self.dir, ignore_errors=True)


def full_history(st):
    out = []
    it = st.iterator()
    try:
        for t in it:
            out.append((t.tid, [(r.oid, r.data) for r in t]))
    finally:
        c = getattr(it, 'close', None)
        if c:
            c()
    return out


def snapshot_queries(st, tids_from, first_state_tid, keys=None):
    """for every state from the pack time on: loadBefore of every reachable object
    (keys given: ask exactly those (state, oid) pairs instead of traversing)"""
    out = {}
    if keys is not None:
        for tid, oid in keys:
            try:
                out[(tid, oid)] = st.loadBefore(oid, p64(u64(tid) + 1))
            except POSException.POSKeyError:
                out[(tid, oid)] = 'POSKeyError'
        return out
    states = ([first_state_tid] if first_state_tid else []) + tids_from
    for tid in states:
        bound = p64(u64(tid) + 1)
        seen, todo = set(), [z64]
        while todo:
            oid = todo.pop()
            if oid in seen:
                continue
            seen.add(oid)
            try:
                r = st.loadBefore(oid, bound)
            except POSException.POSKeyError:
                r = 'POSKeyError'
            out[(tid, oid)] = r
            if r and r != 'POSKeyError':
                todo.extend(referencesf(r[0]))
    return out


def pack_time_after(tid):
    return TimeStamp(tid).timeTime() + 0.5


def check_pack(kind, name, steps, pack_after, gc, clock, cases):
    """build the history, pack just after step number pack_after (-1: before everything)"""
    inp = {'storage': kind, 'history': name, 'steps': steps, 'pack_after_step': pack_after, 'gc': gc}
    r = Run(kind)
    try:
        done = [r.step(s, clock) for s in steps]
        inp['steps_executed'] = done
        st = r.st
        if pack_after >= 0:
            T_tid = r.tids[pack_after]
            T = pack_time_after(T_tid)
            # (a step that changes nothing commits no transaction: its 'tid' is the previous one)
            later = sorted(set(t for t in r.tids[pack_after + 1:] if t > T_tid))
        else:
            T_tid = None
            T = pack_time_after(st.iterator().__next__().tid) - 5 if kind == 'file' else 1.6e9
            later = [t for t, _ in full_history(st)]
        before_hist = full_history(st) if kind == 'file' else None
        before_q = snapshot_queries(st, later, T_tid)
        if kind == 'file':
            copy_dir = tempfile.mkdtemp(prefix='c07-copy-')
            shutil.copy(r.path, os.path.join(copy_dir, 'Data.fs'))
        clock.tick()
        try:
            st.pack(T, referencesf, gc=gc) if kind == 'file' else st.pack(T, referencesf, gc)
        except Exception as e:  # noqa
            # a pack that is refused must leave everything as it was (and the storage usable)
            try:
                REFUSED.append((name, pack_after, gc, type(e).__name__))
                after_q = snapshot_queries(st, later, T_tid, keys=list(before_q))
                if after_q != before_q or (kind == 'file' and full_history(st) != before_hist):
                    return fail(inp, 'a pack that fails (%s: %s) leaves the database unchanged'
                                % (type(e).__name__, str(e)[:100]), 'answers differ', cases)
                clock.tick()
                r.conn.root()['_after_failed_pack'] = 1
                r.tm.commit()
                try:
                    st.pack(T, referencesf, gc=gc) if kind == 'file' else st.pack(T, referencesf, gc)
                except Exception as e2:  # noqa
                    if 'Already packing' in str(e2):
                        return fail(inp, 'a failed pack does not block later packs', str(e2), cases)
                return None
            finally:
                if kind == 'file':
                    shutil.rmtree(copy_dir, ignore_errors=True)
        try:
            after_q = snapshot_queries(st, later, T_tid, keys=list(before_q))
            # what the property lets a pack remove: objects unreachable from the root at T that are
            # not written afterwards (a later state may reference such an object again without
            # writing it: that reference dangles after the pack, by the property's first sentence)
            at_T = set(k[1] for k in before_q if k[0] == T_tid) if T_tid else set()
            written_later = set()
            if kind == 'file':
                for t, recs in before_hist:
                    if t in later:
                        written_later.update(o for o, _ in recs)
            else:
                written_later = None
            for key in before_q:
                removable = gc and key[1] not in at_T and \
                    (written_later is not None and key[1] not in written_later)
                if removable and after_q.get(key, 'POSKeyError') == 'POSKeyError':
                    continue
                if kind != 'file' and key[1] not in at_T and key[0] != T_tid:
                    continue
                if before_q[key] != after_q.get(key):
                    return fail(inp, 'loadBefore(%s, state %s) = %r as before the pack'
                                % (key[1].hex(), key[0].hex(), short(before_q[key])),
                                short(after_q.get(key)), cases)
            if kind != 'file':
                return None
            after_hist = full_history(st)
            want = [(t, recs) for t, recs in before_hist if t in later]
            got = [(t, recs) for t, recs in after_hist if t in later]
            if want != got:
                return fail(inp, 'transactions after the pack time iterate identically',
                            'differs: %r vs %r' % (short(got), short(want)), cases)
            ul = [d['id'] for d in r.db.undoLog(0, 1000)]
            for i, tid in enumerate(r.tids):
                if tid in later and r.txn_ids[i] not in ul:
                    return fail(inp, 'transaction %s after the pack time listed by undoLog' % tid.hex(),
                                'missing', cases)
            # pack again: same time, earlier time -> bytes unchanged
            r.st._file.flush()
            img = open(r.path, 'rb').read()
            for T2 in (T, T - 3):
                clock.tick()
                st.pack(T2, referencesf, gc=gc)
                if open(r.path, 'rb').read() != img:
                    return fail(inp, 'packing again to %s changes nothing'
                                % ('the same time' if T2 == T else 'an earlier time'), 'file bytes differ',
                                cases)
            # reopen with and without index
            r.conn.close()
            r.db.close()
            from ZODB.FileStorage import FileStorage
            for drop_index in (False, True):
                if drop_index and os.path.exists(r.path + '.index'):
                    os.remove(r.path + '.index')
                st2 = FileStorage(r.path)
                try:
                    q2 = snapshot_queries(st2, later, T_tid, keys=list(before_q))
                    if q2 != after_q:
                        bad = [k for k in after_q if after_q[k] != q2.get(k)][:1]
                        return fail(inp, 'same answers after reopen (index %s)'
                                    % ('dropped' if drop_index else 'kept'),
                                    'differs at %r' % (bad,), cases)
                finally:
                    st2.close()
            # undo of the last transaction after the pack time: packed vs unpacked copy
            if later and r.txn_ids[-1] is not None and r.tids[-1] in later:
                res = []
                ukeys = None
                for p in (os.path.join(copy_dir, 'Data.fs'), r.path):
                    st3 = FileStorage(p)
                    db3 = ZODB.DB(st3)
                    tm3 = transaction.TransactionManager()
                    try:
                        clock.tick()
                        try:
                            db3.undo(r.txn_ids[-1], tm3.get())
                            tm3.commit()
                            out = 'ok'
                        except (POSException.UndoError, POSException.MultipleUndoErrors) as e:
                            tm3.abort()
                            out = type(e).__name__
                        q = snapshot_queries(st3, [], st3.lastTransaction(),
                                             keys=[(st3.lastTransaction(), k[1]) for k in ukeys]
                                             if ukeys is not None else None)
                        if ukeys is None:
                            ukeys = list(q)
                        q = {(None, k[1]): v for k, v in q.items()}
                        res.append((out, sorted((k[1], v[0] if v and v != 'POSKeyError' else v)
                                                for k, v in q.items()
                                                if not (gc and k[1] not in at_T and
                                                        k[1] not in written_later))))
                    finally:
                        db3.close()
                if res[0] != res[1]:
                    return fail(inp, 'undo of the last transaction behaves as on the unpacked copy: %r'
                                % (short(res[0]),), short(res[1]), cases)
            return None
        finally:
            if kind == 'file':
                shutil.rmtree(copy_dir, ignore_errors=True)
    finally:
        r.close()


def short(v):
    s = repr(v)
    return s if len(s) < 300 else s[:300] + '...'


def random_history(rnd):
    names = ['root']
    steps = []
    nsteps = rnd.randint(3, 8)
    fresh = 0
    for i in range(nsteps):
        k = rnd.random()
        others = [n for n in names if n != 'root']
        if k < 0.3 or not others:
            fresh += 1
            nm = 'n%d' % fresh
            steps.append(('new', rnd.choice(names), nm))
            names.append(nm)
        elif k < 0.5:
            steps.append(('set', rnd.choice(others), rnd.randint(1, 99)))
        elif k < 0.65:
            steps.append(('link', rnd.choice(names), rnd.choice(others)))
        elif k < 0.85:
            steps.append(('unlink', rnd.choice(names), rnd.choice(others)))
        else:
            steps.append(('undo', rnd.randrange(len(steps))) if steps else ('set', rnd.choice(others), 1))
    return steps


def empty_pack(clock, cases):
    d = tempfile.mkdtemp(prefix='c07-empty-')
    try:
        from ZODB.FileStorage import FileStorage
        p = os.path.join(d, 'Data.fs')
        st = FileStorage(p)
        st._file.flush()
        img = open(p, 'rb').read()
        clock.tick()
        try:
            st.pack(time.time(), referencesf)
        except Exception as e:  # noqa
            return fail({'scenario': 'pack of an empty database'}, 'no-op', type(e).__name__, cases)
        st._file.flush()
        if open(p, 'rb').read() != img:
            return fail({'scenario': 'pack of an empty database'}, 'no-op', 'file changed', cases)
        st.close()
        ms = MappingStorage()
        ms.pack(time.time(), referencesf)
    finally:
        shutil.rmtree(d, ignore_errors=True)
    return None


def search(func, candidate, seed, tier, obligation=''):
    logging.disable(logging.CRITICAL)
    cases = 0
    with Clock() as clock:
        r = empty_pack(clock, cases)
        if r:
            return r
        for name, steps, packs in FIXED:
            for pa in packs:
                for gc in (True, False):
                    for kind in ('file', 'mapping'):
                        if kind == 'mapping' and any(s[0] == 'undo' for s in steps):
                            continue
                        cases += 1
                        try:
                            r = check_pack(kind, name, steps, pa, gc, clock, cases)
                        except Exception as e:  # noqa
                            import traceback
                            r = fail({'history': name, 'pack_after_step': pa, 'gc': gc, 'storage': kind},
                                     'harness runs', traceback.format_exc()[-600:], cases)
                        if r:
                            return r
    # transactions committed WHILE the pack runs are transactions after T too: a commit from another
    # thread in each phase of the packer (deterministic windows, shared with the C08 harness)
    from . import c08
    for which in ('gc', 'copy-to-packtime', 'catch-up'):
        cases += 1
        r = c08.window(which, cases)
        if r:
            return r
    with Clock() as clock:
        rnd = random.Random(seed)
        for n in range(12 if tier == 'quick' else 120):
            steps = random_history(rnd)
            for pa in range(-1, len(steps)):
                for gc in (True, False):
                    if tier == 'quick' and rnd.random() < 0.5:
                        continue
                    cases += 1
                    try:
                        r = check_pack('file', 'random-%d' % n, steps, pa, gc, clock, cases)
                    except Exception as e:  # noqa
                        import traceback
                        r = fail({'history': steps, 'pack_after_step': pa, 'gc': gc},
                                 'harness runs', traceback.format_exc()[-600:], cases)
                    if r:
                        return r
    return {'found': False, 'cases': cases, 'packs_refused_unchanged': len(REFUSED),
            'refused_examples': REFUSED[:3]}
