"""C08 concretiser (bounded): pack of a real FileStorage with commits in every window, with a reader in
flight at the swap, with a crash after every directory operation, and with injected failures.

Scenarios (each on a fresh database of 12 objects with history, packed to 'now'):
  window:gc / window:copy-to-packtime / window:catch-up   another thread commits while the packer is in
        that phase (the hook is the packer's own call into referencesf / writePackedDataRecord /
        PackCopier.copy, so the schedule is deterministic); afterwards and after reopen every committed
        value is present;
  reader-at-swap      a reader holds a pooled file handle when the packer reaches the swap; afterwards 200
        loads of every object agree with the model;
  second-pack         a pack started while one is running is refused, the first one completes;
  crash               the directory is copied after EVERY os.rename/os.remove of FileStorage.pack (and at
        three points of the copy phase); every copy is reopened: all commits that had returned must be there;
  fail:stale-old / fail:write-error / fail:rename / fail:rename-into-place   the pack cannot complete: it must leave the storage
        usable (commit, load, undoLog, pack again) and unchanged;
  stress              1 packer + 2 committers + 1 reader as real threads (4 rounds; thorough: 20).
"""
import logging
import os
import shutil
import tempfile
import threading
import time

import transaction
from persistent import Persistent

import ZODB
from ZODB import POSException
from ZODB.FileStorage import FileStorage
import importlib
FSmod = importlib.import_module('ZODB.FileStorage.FileStorage')
from ZODB.FileStorage import fspack
from ZODB.serialize import referencesf
from ZODB.utils import p64, u64, z64


class P(Persistent):
    def __init__(self, v=0):
        self.v = v


KNOWN_KEYS = set()    # witnesses of open known findings (set by the runner): stepped over, reported back
KNOWN_HITS = []


def fail(inp, exp, obs, cases):
    return {'found': True, 'input': inp, 'expected': exp, 'observed': obs, 'cases': cases}


class World:
    def __init__(self, n=12):
        self.dir = tempfile.mkdtemp(prefix='c08-')
        self.path = os.path.join(self.dir, 'Data.fs')
        self.st = FileStorage(self.path)
        self.db = ZODB.DB(self.st)
        self.model = {}
        tm = transaction.TransactionManager()
        c = self.db.open(tm)
        for i in range(n):
            c.root()['o%d' % i] = P(0)
            self.model['o%d' % i] = 0
        tm.commit()
        for rnd in range(3):
            for i in range(0, n, 2 + rnd):
                c.root()['o%d' % i].v = 10 * rnd + i
                self.model['o%d' % i] = 10 * rnd + i
            tm.commit()
        c.root()['garbage'] = P(7)
        tm.commit()
        del c.root()['garbage']
        tm.commit()
        c.close()

    def commit(self, key, v):
        tm = transaction.TransactionManager()
        c = self.db.open(tm)
        try:
            c.root()[key].v = v
            tm.commit()
            self.model[key] = v
        finally:
            c.close()

    def state(self, db=None):
        db = db or self.db
        tm = transaction.TransactionManager()
        c = db.open(tm)
        try:
            c.cacheMinimize()
            r = c.root()
            return {k: r[k].v for k in sorted(r.keys())}
        finally:
            tm.abort()
            c.close()

    def close(self):
        try:
            self.db.close()
        except Exception:
            pass
        shutil.rmtree(self.dir, ignore_errors=True)


def reopened_state(path):
    st = FileStorage(path)
    db = ZODB.DB(st)
    try:
        tm = transaction.TransactionManager()
        c = db.open(tm)
        r = c.root()
        out = {k: r[k].v for k in sorted(r.keys())}
        c.close()
        return out
    finally:
        db.close()


def in_thread(fn):
    box = {}

    def run():
        try:
            box['r'] = fn()
        except BaseException as e:  # noqa
            box['e'] = e
    t = threading.Thread(target=run)
    t.start()
    return t, box


class Patch:
    def __init__(self, obj, name, new):
        self.obj, self.name, self.new = obj, name, new

    def __enter__(self):
        self.old = getattr(self.obj, self.name)
        setattr(self.obj, self.name, self.new)
        return self

    def __exit__(self, *a):
        setattr(self.obj, self.name, self.old)


# --------------------------------------------------------------------------------------
def window(which, cases):
    w = World()
    try:
        fired = []

        def commit_elsewhere():
            if fired:
                return
            fired.append(1)
            t, box = in_thread(lambda: w.commit('o1', 4242))
            t.join(20)
            if t.is_alive():
                fired.append('blocked')
            if 'e' in box:
                fired.append(repr(box['e']))
        if which == 'gc':
            def refs(p, oids=None):
                commit_elsewhere()
                return referencesf(p, oids)
            w.st.pack(time.time(), refs)
        elif which == 'copy-to-packtime':
            real = fspack.FileStoragePacker.writePackedDataRecord

            def wp(self, h, data, new_tpos):
                commit_elsewhere()
                return real(self, h, data, new_tpos)
            with Patch(fspack.FileStoragePacker, 'writePackedDataRecord', wp):
                w.st.pack(time.time(), referencesf)
        else:
            # a transaction newer than the pack time, so that the catch-up phase has work
            t0 = time.time()
            time.sleep(0.02)
            w.commit('o2', 77)
            real = fspack.PackCopier.copy

            def cp(self, *a, **k):
                commit_elsewhere()
                return real(self, *a, **k)
            with Patch(fspack.PackCopier, 'copy', cp):
                w.st.pack(t0, referencesf)
        inp = {'scenario': 'window:' + which, 'hook_fired': fired}
        if not fired:
            return fail(inp, 'the packer passes through this phase', 'hook never reached', cases)
        if len(fired) > 1 and which != 'never':
            return fail(inp, 'a commit can proceed while the packer is in this phase', fired[1:], cases)
        got = w.state()
        if got != w.model:
            return fail(inp, 'every committed value present after the pack: %r' % w.model, got, cases)
        w.db.close()
        got = reopened_state(w.path)
        if got != w.model:
            return fail(inp, 'every committed value present after reopen: %r' % w.model, got, cases)
        return None
    finally:
        w.close()


def reader_at_swap(cases):
    w = World()
    try:
        time.sleep(0.02)
        ev_in, ev_go = threading.Event(), threading.Event()

        def reader():
            with w.st._files.get() as f:
                f.seek(0)
                f.read(100)
                ev_in.set()
                ev_go.wait(20)
        tr, _ = in_thread(reader)
        ev_in.wait(20)
        tp, boxp = in_thread(lambda: w.st.pack(time.time(), referencesf))
        # let the packer reach the swap (it blocks on the pool's writer lock while the reader is out)
        for _ in range(200):
            if w.st._files.writers:
                break
            time.sleep(0.01)
        time.sleep(0.05)
        ev_go.set()
        tr.join(20)
        tp.join(30)
        inp = {'scenario': 'reader-at-swap'}
        if 'e' in boxp:
            return fail(inp, 'pack completes', repr(boxp['e']), cases)
        for _ in range(50):
            try:
                got = w.state()
            except Exception as e:  # noqa
                return fail(inp, 'loads after the swap agree with the model', repr(e)[:300], cases)
            if got != w.model:
                return fail(inp, 'loads after the swap agree with the model %r' % w.model, got, cases)
        return None
    finally:
        w.close()


def second_pack(cases):
    w = World()
    try:
        time.sleep(0.02)
        res = {}
        real = fspack.FileStoragePacker.writePackedDataRecord
        once = []

        def wp(self, h, data, new_tpos):
            if not once:
                once.append(1)
                try:
                    w.st.pack(time.time(), referencesf)
                    res['second'] = 'accepted'
                except FSmod.FileStorageError as e:
                    res['second'] = 'refused: %s' % e
            return real(self, h, data, new_tpos)
        with Patch(fspack.FileStoragePacker, 'writePackedDataRecord', wp):
            w.st.pack(time.time(), referencesf)
        inp = {'scenario': 'second-pack'}
        if not str(res.get('second', '')).startswith('refused'):
            return fail(inp, 'a second concurrent pack is refused', res.get('second'), cases)
        if w.state() != w.model:
            return fail(inp, 'first pack completes with the model state', w.state(), cases)
        return None
    finally:
        w.close()


def crash_points(cases):
    """copy the directory after every rename/remove of the swap and at points of the copy phase"""
    w = World()
    snaps = []
    try:
        time.sleep(0.02)
        w.commit('o3', 333)

        def snap(label):
            d = tempfile.mkdtemp(prefix='c08-crash-')
            for fn in os.listdir(w.dir):
                src = os.path.join(w.dir, fn)
                if os.path.isfile(src):
                    shutil.copy(src, os.path.join(d, fn))
            snaps.append((label, d, dict(w.model)))
        real_rename, real_remove = os.rename, os.remove

        class OS:
            def __getattr__(self, n):
                return getattr(os, n)

            def rename(self, a, b):
                real_rename(a, b)
                snap('after rename %s -> %s' % (os.path.basename(a), os.path.basename(b)))

            def remove(self, a):
                real_remove(a)
                snap('after remove %s' % os.path.basename(a))
        realw = fspack.FileStoragePacker.writePackedDataRecord
        n = [0]

        def wp(self, h, data, new_tpos):
            n[0] += 1
            if n[0] in (1, 5):
                self._tfile.flush()
                snap('during the copy phase (%d records written)' % n[0])
            return realw(self, h, data, new_tpos)
        with Patch(FSmod, 'os', OS()), Patch(fspack.FileStoragePacker, 'writePackedDataRecord', wp):
            w.st.pack(time.time(), referencesf)
        snap('after the pack returned')
        for label, d, model in snaps:
            cases += 1
            inp = {'scenario': 'crash', 'crash_point': label}
            try:
                got = reopened_state(os.path.join(d, 'Data.fs'))
            except Exception as e:  # noqa
                got = '%s: %s' % (type(e).__name__, str(e)[:200])
            if got != model:
                key = 'crash:' + label
                if key in KNOWN_KEYS:
                    KNOWN_HITS.append(key)
                    continue
                return fail(inp, 'reopens to the unpacked or the packed database with every returned '
                                 'commit: %r' % (model,), got, cases)
        return None
    finally:
        for _, d, _ in snaps:
            shutil.rmtree(d, ignore_errors=True)
        w.close()


def usable_after_failure(w, inp, cases):
    st = w.st
    if st._pack_is_in_progress:
        return fail(inp, 'pack-in-progress flag cleared after the failed pack', 'still set', cases)
    if not st._commit_lock.acquire(False):
        return fail(inp, 'commit lock free after the failed pack', 'still held', cases)
    st._commit_lock.release()
    try:
        if w.state() != w.model:
            return fail(inp, 'unchanged after the failed pack: %r' % w.model, w.state(), cases)
        w.commit('o4', 444)
        st.undoLog(0, 5)
        st.pack(time.time(), referencesf)
        if w.state() != w.model:
            return fail(inp, 'a later pack succeeds with the model state', w.state(), cases)
    except Exception as e:  # noqa
        return fail(inp, 'storage usable after the failed pack (commit, undoLog, pack again)',
                    '%s: %s' % (type(e).__name__, str(e)[:200]), cases)
    return None


def failures(which, cases):
    w = World()
    try:
        time.sleep(0.02)
        inp = {'scenario': 'fail:' + which}
        try:
            if which == 'stale-old':
                os.mkdir(w.path + '.old')
                open(os.path.join(w.path + '.old', 'x'), 'w').close()
                try:
                    w.st.pack(time.time(), referencesf)
                    return fail(inp, 'pack fails (cannot remove the stale .old)', 'succeeded', cases)
                finally:
                    shutil.rmtree(w.path + '.old', ignore_errors=True)
            elif which == 'write-error':
                real = fspack.FileStoragePacker.writePackedDataRecord
                n = [0]

                def wp(self, h, data, new_tpos):
                    n[0] += 1
                    if n[0] == 3:
                        raise OSError(28, 'No space left on device')
                    return real(self, h, data, new_tpos)
                with Patch(fspack.FileStoragePacker, 'writePackedDataRecord', wp):
                    w.st.pack(time.time(), referencesf)
                return fail(inp, 'pack fails (injected write error)', 'succeeded', cases)
            elif which == 'rename':
                class OS:
                    def __getattr__(self, n):
                        return getattr(os, n)

                    def rename(self, a, b):
                        if b.endswith('.old'):
                            raise OSError(13, 'Permission denied')
                        return os.rename(a, b)
                with Patch(FSmod, 'os', OS()):
                    w.st.pack(time.time(), referencesf)
                return fail(inp, 'pack fails (injected rename error)', 'succeeded', cases)
            elif which == 'rename-into-place':
                class OS2:
                    def __getattr__(self, n):
                        return getattr(os, n)

                    def rename(self, a, b):
                        if a.endswith('.pack'):
                            raise OSError(5, 'Input/output error')
                        return os.rename(a, b)
                with Patch(FSmod, 'os', OS2()):
                    w.st.pack(time.time(), referencesf)
                return fail(inp, 'pack fails (injected rename error)', 'succeeded', cases)
        except OSError:
            pass
        r = usable_after_failure(w, inp, cases)
        if r and 'fail:' + which in KNOWN_KEYS:
            KNOWN_HITS.append('fail:' + which)
            return None
        return r
    finally:
        w.close()


def stress(rounds, cases):
    for rnd in range(rounds):
        w = World()
        try:
            stop = threading.Event()
            errors = []
            lock = threading.Lock()

            def committer(keys, base):
                tm = transaction.TransactionManager()
                c = w.db.open(tm)
                try:
                    for i in range(25):
                        k = keys[i % len(keys)]
                        try:
                            c.root()[k].v = base + i
                            tm.commit()
                            with lock:
                                w.model[k] = base + i
                        except POSException.ConflictError:
                            tm.abort()
                        except Exception as e:  # noqa
                            errors.append('committer: %r' % (e,))
                            tm.abort()
                            return
                finally:
                    c.close()

            def reader():
                while not stop.is_set():
                    tm = transaction.TransactionManager()
                    c = w.db.open(tm)
                    try:
                        c.cacheMinimize()
                        for k in list(c.root().keys()):
                            c.root()[k].v
                    except POSException.ConflictError:
                        pass
                    except Exception as e:  # noqa
                        errors.append('reader: %r' % (e,))
                        return
                    finally:
                        tm.abort()
                        c.close()

            def packer():
                for _ in range(3):
                    try:
                        w.st.pack(time.time(), referencesf)
                    except Exception as e:  # noqa
                        errors.append('packer: %r' % (e,))
                    time.sleep(0.01)
            ts = [threading.Thread(target=committer, args=(['o0', 'o2', 'o4'], 1000)),
                  threading.Thread(target=committer, args=(['o1', 'o3', 'o5'], 2000)),
                  threading.Thread(target=packer)]
            tr = threading.Thread(target=reader)
            tr.start()
            for t in ts:
                t.start()
            for t in ts:
                t.join(120)
            stop.set()
            tr.join(30)
            inp = {'scenario': 'stress', 'round': rnd}
            if errors:
                return fail(inp, 'no errors seen by committers/readers/packer', errors[:3], cases)
            if w.state() != w.model:
                return fail(inp, 'every successful commit present: %r' % w.model, w.state(), cases)
            w.db.close()
            got = reopened_state(w.path)
            if got != w.model:
                return fail(inp, 'every successful commit present after reopen: %r' % w.model, got, cases)
        finally:
            w.close()
    return None


def search(func, candidate, seed, tier, obligation=''):
    logging.disable(logging.CRITICAL)
    cases = 0
    plan = [lambda c: window('gc', c), lambda c: window('copy-to-packtime', c),
            lambda c: window('catch-up', c), reader_at_swap, second_pack, crash_points,
            lambda c: failures('stale-old', c), lambda c: failures('write-error', c),
            lambda c: failures('rename', c), lambda c: failures('rename-into-place', c),
            lambda c: stress(4 if tier == 'quick' else 20, c)]
    for step in plan:
        cases += 1
        try:
            r = step(cases)
        except Exception:  # noqa
            import traceback
            r = fail({'scenario': 'harness'}, 'harness runs', traceback.format_exc()[-800:], cases)
        if r:
            return r
    return {'found': False, 'cases': cases, 'known_hits': sorted(set(KNOWN_HITS))}
