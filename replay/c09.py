"""C09 concretiser (families I/K): the real FileStorage opened with missing / cut-short / stale index
files and read-only, compared with a full scan.
Bound: 4 histories (incl. one of empty transactions only, one with data then trailing empty transactions, and one
with a pack); index files saved at
every earlier close point (also before the pack); every truncation length of each saved index (all
bytes for files <= 400 bytes, else 60 sampled); read-only opens of 3 tail states (clean, voted-unfinished,
torn) with directory snapshot before/after and every mutator called; read-only open of a missing data file."""
import logging
import os
import shutil
import tempfile
import time

from ZODB import POSException
from ZODB.utils import p64, z64

from . import fsharness as H


def fail(inp, exp, obs, cases):
    return {'found': True, 'input': inp, 'expected': exp, 'observed': obs, 'cases': cases}


def observe(path, read_only=False):
    st = H.FileStorage(path, read_only=read_only)
    try:
        return {'history': H.storage_history(st), 'last': st.lastTransaction(), 'len': len(st),
                'pos': st.getSize(), 'next_oid_above': max([z64] + [o for _, d in H.storage_history(st)
                                                                      for o in d])}
    finally:
        st.close()


def build(d, script):
    """returns list of saved index snapshots [(label, bytes)]"""
    path = os.path.join(d, 'Data.fs')
    saved = []
    st = H.FileStorage(path, create=True)
    n = [0]

    def commit(writes):
        n[0] += 1
        t = H.Txn()
        st.tpc_begin(t)
        for oid, data in writes:
            try:
                ser = st.getTid(oid)
            except POSException.POSKeyError:
                ser = z64
            st.store(oid, ser, data, '', t)
        st.tpc_vote(t)
        st.tpc_finish(t)
    for step in script:
        if step[0] == 'commit':
            commit(step[1])
        elif step[0] == 'close':
            st.close()
            with open(path + '.index', 'rb') as f:
                saved.append(('index saved at close #%d' % len(saved), f.read()))
            st = H.FileStorage(path)
        elif step[0] == 'pack':
            time.sleep(0.01)
            st.pack(time.time(), lambda data: [], gc=False)
    st.close()
    with open(path + '.index', 'rb') as f:
        saved.append(('final index', f.read()))
    return path, saved


SCRIPTS = [
    [('commit', [(p64(1), b'a' * 20), (p64(0x10001), b'b' * 30)]), ('close',),
     ('commit', [(p64(1), b'c' * 25)]), ('commit', [(p64(2), b'd')]), ('close',),
     ('commit', [(p64(0x20001), b'e' * 10)])],
    [('commit', []), ('commit', []), ('commit', []), ('commit', [])],
    # data, then a trailing transaction WITHOUT data records (its tid is the last tid of the file)
    [('commit', [(p64(1), b'a' * 20)]), ('commit', [(p64(2), b'b' * 20)]), ('commit', []), ('close',),
     ('commit', [(p64(1), b'c' * 20)]), ('commit', []), ('commit', [])],
    [('commit', [(p64(1), b'a' * 40)]), ('commit', [(p64(1), b'b' * 40)]), ('commit', [(p64(2), b'x' * 90)]),
     ('close',), ('commit', [(p64(1), b'c' * 40)]), ('pack',), ('commit', [(p64(3), b'after pack' * 9)]),
     ('commit', [(p64(1), b'again' * 13)])],
]


def search(func, candidate, seed, tier, obligation=''):
    logging.disable(logging.CRITICAL)
    cases = 0
    for si, script in enumerate(SCRIPTS):
        d = tempfile.mkdtemp(prefix='c09-')
        try:
            path, saved = build(d, script)
            for ext in ('.index', '.tmp', '.lock', '.old'):
                pass
            os.remove(path + '.index')
            for junk in ('.old', '.pack', '.index_tmp'):
                if os.path.exists(path + junk):
                    os.remove(path + junk)
            truth = observe(path)               # full scan, no index
            os.remove(path + '.index')
            for label, img in saved:
                cuts = list(range(len(img) + 1))
                if len(cuts) > 400:
                    cuts = sorted(set(cuts[::max(1, len(cuts) // 60)] + cuts[-20:] + cuts[:20]))
                for k in cuts:
                    cases += 1
                    with open(path + '.index', 'wb') as f:
                        f.write(img[:k])
                    inp = {'script': si, 'index': label, 'index_bytes_kept': '%d of %d' % (k, len(img))}
                    try:
                        got = observe(path)
                    except Exception as e:  # noqa
                        return fail(inp, 'opens like a full scan', '%s: %s' % (type(e).__name__, e), cases)
                    if got != truth:
                        diff = [k_ for k_ in truth if truth[k_] != got[k_]]
                        return fail(inp, 'same state as a full scan', 'differs in %s: %r vs %r' % (
                            diff, {k_: got[k_] for k_ in diff if k_ != 'history'},
                            {k_: truth[k_] for k_ in diff if k_ != 'history'}), cases)
                    if os.path.exists(path + '.index'):
                        os.remove(path + '.index')
            # leftover side files are ignored
            for junk, content in (('.index_tmp', b'junk'), ('.pack', b'FS21junk'), ('.old', b'old')):
                with open(path + junk, 'wb') as f:
                    f.write(content)
            cases += 1
            got = observe(path)
            if got != truth:
                return fail({'script': si, 'leftover': 'index_tmp/pack/old files'}, 'same state', 'differs', cases)
        finally:
            shutil.rmtree(d, ignore_errors=True)
    # a read-only open of a data file that is NOT there (e.g. the window between the two renames of a pack) creates
    # nothing and shows nothing: it is refused, and the directory stays byte-identical
    d = tempfile.mkdtemp(prefix='c09miss-')
    try:
        path = os.path.join(d, 'Data.fs')
        w = H.FileStorage(path, create=True)
        t = H.Txn()
        w.tpc_begin(t)
        w.store(p64(1), z64, b'data', '', t)
        w.tpc_vote(t)
        w.tpc_finish(t)
        w.close()
        os.rename(path, path + '.old')
        for with_lock in (True, False):
            if not with_lock and os.path.exists(path + '.lock'):
                os.remove(path + '.lock')
            before = {n: open(os.path.join(d, n), 'rb').read() for n in sorted(os.listdir(d))}
            cases += 1
            inp = {'read_only_open_of': 'a missing Data.fs (side files present: %s)' % sorted(before)}
            try:
                ro = H.FileStorage(path, read_only=True)
                n_objects = len(ro)
                ro.close()
                opened = True
            except Exception:  # noqa
                opened = False
            after = {n: open(os.path.join(d, n), 'rb').read() for n in sorted(os.listdir(d))}
            if after != before:
                return fail(inp, 'a read-only open modifies no file',
                            'files now: %r (before: %r)%s' % (sorted(after), sorted(before),
                                                             '; opened showing %d objects' % n_objects if opened else ''),
                            cases)
    finally:
        shutil.rmtree(d, ignore_errors=True)
    # read-only opens modify nothing and refuse every write
    for tail in ('clean', 'voted-unfinished', 'torn'):
        d = tempfile.mkdtemp(prefix='c09ro-')
        try:
            path = os.path.join(d, 'Data.fs')
            w = H.FileStorage(path, create=True)
            t = H.Txn()
            w.tpc_begin(t)
            w.store(p64(1), z64, b'data', '', t)
            w.tpc_vote(t)
            w.tpc_finish(t)
            if tail != 'clean':
                t = H.Txn()
                w.tpc_begin(t)
                w.store(p64(2), z64, b'x' * 50, '', t)
                w.tpc_vote(t)
                w._file.flush()
            img = open(path, 'rb').read()
            if tail == 'torn':
                img = img[:-30]
            rd = os.path.join(d, 'ro')
            os.mkdir(rd)
            rp = os.path.join(rd, 'Data.fs')
            with open(rp, 'wb') as f:
                f.write(img)
            before = {n: open(os.path.join(rd, n), 'rb').read() for n in sorted(os.listdir(rd))}
            cases += 1
            inp = {'read_only_open_of': tail}
            try:
                ro = H.FileStorage(rp, read_only=True)
            except Exception as e:  # noqa
                return fail(inp, 'read-only open succeeds', '%s: %s' % (type(e).__name__, e), cases)
            try:
                if len(H.storage_history(ro)) != 1:
                    return fail(inp, 'exactly the one finished transaction', repr(H.storage_history(ro)), cases)
                tt = H.Txn()
                for name, call in (('tpc_begin', lambda: ro.tpc_begin(tt)),
                                   ('store', lambda: ro.store(p64(5), z64, b'd', '', tt)),
                                   ('new_oid', lambda: ro.new_oid()),
                                   ('pack', lambda: ro.pack(time.time(), lambda x: [])),
                                   ('undo', lambda: ro.undo(b'AAAAAAAAAAA=', tt)),
                                   ('restore', lambda: ro.restore(p64(5), p64(9), b'd', '', None, tt)),
                                   ('deleteObject', lambda: ro.deleteObject(p64(1), p64(9), tt))):
                    try:
                        call()
                        return fail(inp, '%s refused with ReadOnlyError' % name, 'accepted', cases)
                    except POSException.ReadOnlyError:
                        pass
            finally:
                ro.close()
            after = {n: open(os.path.join(rd, n), 'rb').read() for n in sorted(os.listdir(rd))}
            if after != before:
                return fail(inp, 'directory byte-identical after read-only use',
                            'files now: %r (before: %r)' % (sorted(after), sorted(before)), cases)
            if tail != 'clean':
                w.tpc_abort(t)
            w.close()
        finally:
            shutil.rmtree(d, ignore_errors=True)
    return {'found': False, 'cases': cases}
