"""C10 concretiser: real conflict resolution through connections on file and demo storages.
Bound: resolvable counter class recording the three states it is given; chains of 2-3 concurrent
writers; states holding a strong and a weak reference to the same target (both orders); resolver
raising / returning; class without resolver; undoMultiple of two transactions on one resolvable
object with a later change (FileStorage)."""
import logging
import os
import shutil
import tempfile

import transaction
from persistent import Persistent
from persistent.wref import WeakRef

import ZODB
from ZODB.DemoStorage import DemoStorage
from ZODB.POSException import ConflictError

LOG = []


class Counter(Persistent):
    def __init__(self):
        self.value = 0
        self.extra = None

    def _p_resolveConflict(self, old, committed, new):
        LOG.append((old['value'], committed['value'], new['value']))
        if new.get('fail'):
            raise RuntimeError('resolver fails')
        if new.get('attrerr'):
            raise AttributeError('resolver touches an attribute a PersistentReference does not have')
        merged = dict(committed)
        merged['value'] = committed['value'] + new['value'] - old['value']
        for k in ('strong', 'weak', 'extra'):
            if k in new:
                merged[k] = new[k]
        return merged


class Plain(Persistent):
    def __init__(self):
        self.value = 0


class Target(Persistent):
    pass


def fail(inp, exp, obs, cases):
    return {'found': True, 'input': inp, 'expected': exp, 'observed': obs, 'cases': cases}


def search(func, candidate, seed, tier, obligation=''):
    logging.disable(logging.CRITICAL)
    cases = 0
    for kind in ('file', 'demo'):
        d = tempfile.mkdtemp(prefix='c10-')
        try:
            if kind == 'file':
                from ZODB.FileStorage import FileStorage
                st = FileStorage(os.path.join(d, 'Data.fs'))
            else:
                st = DemoStorage()
            db = ZODB.DB(st)
            tm0 = transaction.TransactionManager()
            c0 = db.open(tm0)
            r = c0.root()
            r['c'], r['p'], r['t'] = Counter(), Plain(), Target()
            r['a'], r['b'] = Counter(), Counter()
            tm0.commit()
            r['a'].strong, r['a'].weak = r['t'], WeakRef(r['t'])
            r['b'].weak, r['b'].strong = WeakRef(r['t']), r['t']
            tm0.commit()

            def two_writers(name, d1, d2, setup2=None):
                tm1, tm2 = transaction.TransactionManager(), transaction.TransactionManager()
                c1, c2 = db.open(tm1), db.open(tm2)
                o1, o2 = c1.root()[name], c2.root()[name]
                base = o1.value
                o1.value += d1
                o2.value += d2
                if setup2:
                    setup2(o2)
                tm1.commit()
                del LOG[:]
                try:
                    tm2.commit()
                    out = 'committed'
                except ConflictError:
                    tm2.abort()
                    out = 'conflict'
                val_in_writer = c2.root()[name].value
                c1.close()
                c2.close()
                c0.sync()
                return out, base, val_in_writer

            cases += 1
            out, base, seen = two_writers('c', 3, 5)
            inp = {'storage': kind, 'scenario': 'two writers add 3 and 5 to a resolvable counter'}
            if out != 'committed' or c0.root()['c'].value != base + 8:
                return fail(inp, 'merged value %d stored' % (base + 8),
                            '%s, value %r' % (out, c0.root()['c'].value), cases)
            if LOG != [(base, base + 3, base + 5)]:
                return fail(inp, 'resolver called with (old=%d, committed=%d, new=%d)' % (base, base + 3, base + 5),
                            'called with %r' % LOG, cases)
            if seen != base + 8:
                return fail(inp, "writer's connection reads the merged state next", 'reads %r' % seen, cases)
            cases += 1
            out, base, seen = two_writers('c', 1, 1, setup2=lambda o: setattr(o, 'fail', True))
            if out != 'conflict' or c0.root()['c'].value != base + 1:
                return fail({'storage': kind, 'scenario': 'resolver raises'}, 'ConflictError, nothing stored',
                            '%s, value %r' % (out, c0.root()['c'].value), cases)
            # a resolver failing with AttributeError fails THAT commit only: the class still offers resolution
            cases += 1
            out, base, seen = two_writers('b', 1, 1, setup2=lambda o: setattr(o, 'attrerr', True))
            if out != 'conflict' or c0.root()['b'].value != base + 1:
                return fail({'storage': kind, 'scenario': 'resolver raises AttributeError'},
                            'ConflictError, nothing stored', '%s, value %r' % (out, c0.root()['b'].value), cases)
            cases += 1
            out, base, seen = two_writers('c', 2, 4)
            if out != 'committed' or c0.root()['c'].value != base + 6:
                return fail({'storage': kind, 'scenario': 'a resolver of the class failed with AttributeError in an '
                             'earlier commit; now two writers add 2 and 4 to another counter of that class'},
                            'merged value %d stored' % (base + 6), '%s, value %r' % (out, c0.root()['c'].value), cases)
            cases += 1
            out, base, seen = two_writers('p', 1, 2)
            if out != 'conflict' or c0.root()['p'].value != base + 1:
                return fail({'storage': kind, 'scenario': 'class without resolver'}, 'ConflictError, nothing stored',
                            '%s, value %r' % (out, c0.root()['p'].value), cases)
            # references of every spelling survive a resolution
            for name in ('a', 'b'):
                cases += 1
                out, base, seen = two_writers(name, 2, 4)
                c0.sync()
                o = c0.root()[name]
                o._p_deactivate()
                kinds = (type(o.strong).__name__, type(o.weak).__name__)
                if out != 'committed' or kinds != ('Target', 'WeakRef'):
                    return fail({'storage': kind, 'scenario': 'object %s holds a strong and a weak reference to '
                                 'the same target; two writers; resolution' % name},
                                "strong stays a Target, weak stays a WeakRef", '%s; kinds %r' % (out, kinds), cases)
            c0.close()
            db.close()
        finally:
            shutil.rmtree(d, ignore_errors=True)
    # undo path: undoMultiple of two transactions on one resolvable object, with a later change
    d = tempfile.mkdtemp(prefix='c10u-')
    try:
        from ZODB.FileStorage import FileStorage
        db = ZODB.DB(FileStorage(os.path.join(d, 'Data.fs')))
        tm = transaction.TransactionManager()
        conn = db.open(tm)
        conn.root()['c'] = Counter()
        tm.commit()
        ids = []
        for delta in (1, 2, 4):
            conn.root()['c'].value += delta
            tm.commit()
            ids.append(db.undoLog(0, 1)[0]['id'])
        for order in ((0, 1), (1, 0)):
            cases += 1
            try:
                db.undoMultiple([ids[order[0]], ids[order[1]]], tm.get())
                tm.commit()
                conn.sync()
                got = conn.root()['c'].value
                err = None
            except Exception as e:  # noqa
                tm.abort()
                got, err = None, '%s: %s' % (type(e).__name__, str(e)[:80])
            if err or got != 4:
                return fail({'scenario': 'counter +1, +2, +4; undoMultiple of the first two (order %r)' % (order,)},
                            'value 4 (later change kept through the class merge)', err or 'value %r' % got, cases)
            # redo for the next order
            db.undo(db.undoLog(0, 1)[0]['id'], tm.get())
            tm.commit()
            conn.sync()
        conn.close()
        db.close()
    finally:
        shutil.rmtree(d, ignore_errors=True)
    return {'found': False, 'cases': cases}
