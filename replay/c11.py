"""C11 concretiser (bounded): programs over persistent mappings, lists and custom objects through a real
Connection, against a model, on every bundled storage.

After EVERY step the harness compares, for every object it has ever created:
  _p_jar / _p_oid (owned iff the model says it is in the database or pending in the open transaction),
  _p_changed (never True outside a transaction), _p_serial (== tid of the commit that last wrote it),
  attribute values after re-access (committed state after abort / failed commit),
and after every successful commit: the set of oids written by the transaction in the storage == the
model's set (changed + newly reachable), all under ONE transaction id.

Steps: modify, add implicitly (by reachability) / explicitly (conn.add), remove, commit, abort, failed
commit at phase {commit (conflict injected through a second connection), vote (storage.tpc_vote raises),
finish (storage.tpc_finish raises before doing anything), pickle (an object of the transaction is
unpicklable after the pickler has met a brand-new child of it)}, add() with joining refused, close (must be
refused inside a transaction) and reopen from the pool.

Bound: 9 fixed programs + 60 (thorough: 600) random programs of <= 12 steps over <= 6 objects, on
MappingStorage, FileStorage and DemoStorage."""
import logging
import os
import random
import shutil
import tempfile

import transaction
from persistent import Persistent
from persistent.list import PersistentList
from persistent.mapping import PersistentMapping

import ZODB
from ZODB import POSException
from ZODB.utils import z64


class Obj(Persistent):
    """custom persistent object; children in a plain list that is REASSIGNED on change"""
    def __init__(self, v=0):
        self.v = v
        self.kids = []

    def add_kid(self, o):
        self.kids = self.kids + [o]

    def del_kid(self, o):
        self.kids = [x for x in self.kids if x is not o]


class MapObj(PersistentMapping):
    """the same interface on a PersistentMapping"""
    def __init__(self, v=0):
        PersistentMapping.__init__(self)
        self['v'] = v
        self['kids'] = ()

    v = property(lambda self: self['v'], lambda self, x: self.__setitem__('v', x))
    kids = property(lambda self: list(self['kids']))

    def add_kid(self, o):
        self['kids'] = tuple(self['kids']) + (o,)

    def del_kid(self, o):
        self['kids'] = tuple(x for x in self['kids'] if x is not o)


class ListObj(PersistentList):
    """the same interface on a PersistentList: element 0 is v, the rest are the children"""
    def __init__(self, v=0):
        PersistentList.__init__(self, [v])

    v = property(lambda self: self[0], lambda self, x: self.__setitem__(0, x))
    kids = property(lambda self: list(self.data[1:]))

    def add_kid(self, o):
        self.append(o)

    def del_kid(self, o):
        for i in range(len(self) - 1, 0, -1):
            if self[i] is o:
                del self[i]


KINDS = [Obj, MapObj, ListObj]


KNOWN_KEYS = set()    # witnesses of open known findings (set by the runner): stepped over, reported back
KNOWN_HITS = []
F21_KEY = 'failed-commit:new-object-that-never-reached-the-cache-keeps-oid-and-jar'


def fail(inp, exp, obs, cases):
    return {'found': True, 'input': inp, 'expected': exp, 'observed': obs, 'cases': cases}


class Boom(Exception):
    pass


class World:
    def __init__(self, kind):
        self.kind = kind
        self.dir = tempfile.mkdtemp(prefix='c11-')
        if kind == 'file':
            from ZODB.FileStorage import FileStorage
            st = FileStorage(os.path.join(self.dir, 'Data.fs'))
        elif kind == 'demo':
            from ZODB.DemoStorage import DemoStorage
            st = DemoStorage()
        else:
            from ZODB.MappingStorage import MappingStorage
            st = MappingStorage()
        self.st = st
        self.db = ZODB.DB(st)
        self.tm = transaction.TransactionManager()
        self.conn = self.db.open(self.tm)
        self.objs = {}          # name -> python object (kept for ever)
        # model
        self.committed = {}     # name -> {'v': int, 'kids': [names]}  for objects IN the database
        self.root_kids = []     # committed children of root
        self.serial = {}        # name -> tid of last write
        self.pend = None        # pending view: dict(committed), root_kids, touched set, added set
        self.last_state = {}    # name -> (v, kids) as the PROGRAM last left the python object
        self.begin()

    # ---- model helpers
    def begin(self):
        self.pend = {'state': {k: {'v': d['v'], 'kids': list(d['kids'])} for k, d in self.committed.items()},
                     'root': list(self.root_kids), 'touched': set(), 'added': set(), 'root_touched': False}

    def reachable(self, state, root):
        seen, todo = set(), list(root)
        while todo:
            n = todo.pop()
            if n in seen:
                continue
            seen.add(n)
            todo.extend(state[n]['kids'] if n in state else [])
        return seen

    def reopen_same(self):
        """close the connection and get THE SAME connection object back from the pool (the pool hands out
        the available connection with the warmest cache first, which may be another one)"""
        old = self.conn
        old.close()
        others = []
        while True:
            c = self.db.open(self.tm)
            if c is old:
                break
            others.append(c)
            if len(others) > 8:
                raise RuntimeError('the closed connection does not come back from the pool')
        for c in others:
            c.close()
        self.conn = old

    def close(self):
        try:
            self.tm.abort()
            self.conn.close()
            self.db.close()
        except Exception:
            pass
        shutil.rmtree(self.dir, ignore_errors=True)

    def name_of(self, o):
        for n, x in self.objs.items():
            if x is o:
                return n
        return None

    def ensure_state(self, name):
        """an object that is not (any longer) in the database enters the pending view with the
        state its python object has - "can be added again later" """
        st = self.pend['state']
        if name in st:
            return
        o = self.objs[name]
        st[name] = {'v': o.v, 'kids': [self.name_of(k) for k in o.kids]}
        for k in st[name]['kids']:
            self.ensure_state(k)

    # ---- steps
    def new(self, name, parent, explicit):
        if parent != 'root' and parent not in self.pend['state']:
            parent = 'root'
        o = KINDS[len(self.objs) % 3](len(self.objs) + 1)
        self.objs[name] = o
        self.last_state[name] = (o.v, [])
        self.pend['state'][name] = {'v': o.v, 'kids': []}
        if explicit:
            self.conn.add(o)
            self.pend['added'].add(name)
        self.link(parent, name)

    def link(self, parent, name):
        o = self.objs[name]
        self.ensure_state(name)
        if parent == 'root':
            self.conn.root()[name] = o
            if name not in self.pend['root']:
                self.pend['root'].append(name)
            self.pend['root_touched'] = True
        else:
            self.objs[parent].add_kid(o)
            self.pend['state'][parent]['kids'].append(name)
            self.last_state[parent] = (self.last_state[parent][0], self.last_state[parent][1] + [name])
            self.pend['touched'].add(parent)

    def unlink(self, parent, name):
        if parent == 'root':
            if name in self.conn.root():
                del self.conn.root()[name]
                self.pend['root'].remove(name)
                self.pend['root_touched'] = True
        else:
            p = self.objs[parent]
            o = self.objs[name]
            if any(x is o for x in p.kids):
                p.del_kid(o)
                self.pend['state'][parent]['kids'] = [n for n in self.pend['state'][parent]['kids']
                                                      if n != name]
                self.last_state[parent] = (self.last_state[parent][0],
                                           [n for n in self.last_state[parent][1] if n != name])
                self.pend['touched'].add(parent)

    def modify(self, name):
        o = self.objs[name]
        o.v = o.v + 100
        self.pend['state'][name]['v'] = o.v
        self.last_state[name] = (o.v, self.last_state[name][1])
        self.pend['touched'].add(name)


def in_db_or_pending(w, name):
    """the model's view: does this object belong to the connection right now?"""
    if name in w.committed:
        return True
    if name in w.pend['added']:
        return True
    return False


def check_objects(w, label, after_boundary):
    for name, o in w.objs.items():
        owned = o._p_jar is not None
        want = in_db_or_pending(w, name)
        # objects added implicitly are owned only once a commit has reached them; until then unowned
        if owned != want and not (not want and not owned):
            if owned and not want:
                in_cache = o._p_jar is w.conn and w.conn._cache.get(o._p_oid) is not None
                return '%s: object %s still belongs to the connection (jar set, oid %r, %s) but was never ' \
                       'committed' % (label, name, o._p_oid,
                                      'in the cache' if in_cache else 'never reached the cache')
            if want and not owned:
                return '%s: object %s lost its connection' % (label, name)
        if (o._p_oid is None) != (o._p_jar is None):
            return '%s: object %s has _p_oid %r but _p_jar %r' % (label, name, o._p_oid, o._p_jar)
        if not owned and name in w.last_state:
            # an object that belongs to no database has no committed state to go back to: it must
            # still carry the state the program gave it ("can be added again later")
            try:
                got = (o.v, [w.name_of(k) for k in o.kids])
            except Exception as e:  # noqa
                got = '%s: %s' % (type(e).__name__, e)
            if got != w.last_state[name]:
                return '%s: object %s belongs to no database and has lost its state: %r, the program ' \
                       'left it as %r' % (label, name, got, w.last_state[name])
        if after_boundary:
            if o._p_changed:
                return '%s: object %s still marked changed outside a transaction' % (label, name)
            if name in w.committed:
                # next access shows the committed state
                if o.v != w.committed[name]['v']:
                    return '%s: object %s shows v=%r, committed %r' % (label, name, o.v,
                                                                      w.committed[name]['v'])
                kids = [k for k in w.committed[name]['kids']]
                got = [n for x in o.kids for n, oo in w.objs.items() if oo is x]
                if got != kids:
                    return '%s: object %s shows kids %r, committed %r' % (label, name, got, kids)
                if o._p_serial != w.serial[name]:
                    return '%s: object %s carries serial %r, last written in %r' % (
                        label, name, o._p_serial, w.serial[name])
    if after_boundary:
        got = sorted(k for k in w.conn.root().keys())
        if got != sorted(w.root_kids):
            return '%s: root shows %r, committed %r' % (label, got, sorted(w.root_kids))
    return None


def written_oids(st, tid):
    out = set()
    it = st.iterator(tid, tid)
    try:
        for t in it:
            for r in t:
                out.add(r.oid)
    finally:
        c = getattr(it, 'close', None)
        if c:
            c()
    return out


def do_commit(w):
    """commit and update the model; -> failure description or None"""
    before = w.st.lastTransaction()
    w.tm.commit()
    tid = w.st.lastTransaction()
    p = w.pend
    new_committed = dict(w.committed)
    # written: explicitly added objects, touched objects that are in the database, and - transitively -
    # every object not yet in the database that is referenced by a written object (or by a changed root)
    written = set(p['added'])
    for n in p['touched']:
        if n in w.committed:
            written.add(n)
    todo = list(written) + (list(p['root']) if p['root_touched'] else [])
    seen = set()
    while todo:
        n = todo.pop()
        if n in seen:
            continue
        seen.add(n)
        if n not in w.committed:
            written.add(n)
        if n in written:
            todo.extend(p['state'][n]['kids'])
    nothing = not written and not p['root_touched']
    for n in written:
        new_committed[n] = {'v': p['state'][n]['v'], 'kids': list(p['state'][n]['kids'])}
        w.serial[n] = tid
    w.committed = new_committed
    w.root_kids = list(p['root'])
    if nothing:
        w.begin()
        return None
    if tid == before:
        return 'commit wrote no transaction although %r changed' % (sorted(written),)
    want = {w.objs[n]._p_oid for n in written}
    if p['root_touched']:
        want.add(z64)
    got = written_oids(w.st, tid)
    w.begin()
    if got != want:
        names = {o._p_oid: n for n, o in w.objs.items()}
        return 'transaction %s wrote %r, expected %r' % (
            tid.hex(), sorted(names.get(x, x.hex()) for x in got),
            sorted(names.get(x, x.hex()) for x in want))
    return None


def failed_commit(w, phase):
    """make the commit fail in the given phase; the model stays at the last committed state"""
    st = w.conn._normal_storage
    if phase == 'pickle':
        # an object of the transaction cannot be pickled - AFTER the pickler has met a brand-new child of
        # it (which has been given an oid by then): the commit fails in the middle of storing
        holders = sorted(n for n in w.pend['touched'] if n in w.pend['state'] and n in w.objs
                         and w.objs[n]._p_jar is not None)
        if not holders:
            return 'skip'
        holder = w.objs[holders[0]]
        child = KINDS[len(w.objs) % 3](len(w.objs) + 1)
        cname = 'p%d' % (len(w.objs) + 1)
        w.objs[cname] = child
        w.last_state[cname] = (child.v, [])
        holder.add_kid(child)
        holder.__dict__['_unpicklable'] = lambda: 1
        holder._p_changed = True
        try:
            try:
                w.tm.commit()
                return 'commit succeeded although an object could not be pickled'
            except Exception:
                pass
        finally:
            holder.__dict__.pop('_unpicklable', None)
        w.tm.abort()
        w.last_state[holders[0]] = (w.last_state[holders[0]][0], w.last_state[holders[0]][1] + [cname])
        w.begin()
        return None
    if phase == 'commit':
        # a conflicting change through another connection on some touched committed object
        victims = sorted(n for n in w.pend['touched'] if n in w.committed)[::-1]
        if not victims:
            return 'skip'
        tm2 = transaction.TransactionManager()
        c2 = w.db.open(tm2)
        o2 = c2.get(w.objs[victims[0]]._p_oid)
        o2.v = o2.v + 1000
        tm2.commit()
        c2.close()
        w.committed[victims[0]]['v'] = o2.v
        w.serial[victims[0]] = w.st.lastTransaction()
        try:
            w.tm.commit()
            return 'commit succeeded despite a conflicting commit on %s' % victims[0]
        except POSException.ConflictError:
            w.tm.abort()
    else:
        name = 'tpc_vote' if phase == 'vote' else 'tpc_finish'
        real = getattr(st, name)

        def boom(*a, **k):
            raise Boom(phase)
        setattr(st, name, boom)
        try:
            try:
                w.tm.commit()
                setattr(st, name, real)
                if not (w.pend['touched'] or w.pend['root_touched'] or w.pend['added']):
                    w.begin()
                    return None
                return 'commit succeeded although %s raised' % name
            except Boom:
                pass
        finally:
            try:
                delattr(st, name)
            except AttributeError:
                setattr(st, name, real)
        w.tm.abort()
    w.begin()
    return None


def run_program(kind, prog, cases):
    w = World(kind)
    inp = {'storage': kind, 'program': prog}
    try:
        for k, step in enumerate(prog):
            op = step[0]
            label = 'step %d %r' % (k, step)
            boundary = False
            try:
                if op == 'new':
                    w.new(step[1], step[2], step[3])
                elif op == 'modify':
                    if step[1] in w.objs and step[1] in w.pend['state']:
                        w.modify(step[1])
                elif op == 'link':
                    if step[2] in w.objs and (step[1] == 'root' or step[1] in w.pend['state']):
                        w.link(step[1], step[2])
                elif op == 'unlink':
                    if step[2] in w.objs and (step[1] == 'root' or step[1] in w.pend['state']):
                        w.unlink(step[1], step[2])
                elif op == 'commit':
                    r = do_commit(w)
                    if r:
                        return fail(inp, 'storage records of the commit match the model', label + ': ' + r, cases)
                    boundary = True
                elif op == 'abort':
                    w.tm.abort()
                    w.begin()
                    boundary = True
                elif op == 'fail':
                    r = failed_commit(w, step[1])
                    if r == 'skip':
                        continue
                    if r:
                        return fail(inp, 'failed commit behaves', label + ': ' + r, cases)
                    boundary = True
                elif op == 'close-inside':
                    joined = not w.conn._needs_to_join
                    try:
                        w.reopen_same()
                        if joined:
                            return fail(inp, 'close refused inside a transaction', label + ': closed', cases)
                    except POSException.ConnectionStateError:
                        if not joined:
                            return fail(inp, 'close allowed outside a transaction', label + ': refused', cases)
                elif op == 'reopen':
                    w.tm.abort()
                    w.begin()
                    w.reopen_same()
                    boundary = True
                elif op == 'add-refused':
                    tm2 = transaction.TransactionManager(explicit=True)
                    c2 = w.db.open(tm2)
                    o = Obj(7)
                    try:
                        c2.add(o)
                        return fail(inp, 'add outside a transaction (explicit mode) is refused', label, cases)
                    except Exception:
                        pass
                    if o._p_jar is not None or o._p_oid is not None:
                        return fail(inp, 'an object whose add() failed belongs to no database',
                                    label + ': jar %r oid %r' % (o._p_jar, o._p_oid), cases)
                    c2.close()
            except Exception as e:  # noqa
                import traceback
                return fail(inp, 'program runs', label + ': ' + traceback.format_exc()[-500:], cases)
            r = check_objects(w, label, boundary)
            if r:
                if 'never reached the cache' in r and op == 'fail' and F21_KEY in KNOWN_KEYS:
                    # open finding: the rest of this program would only show its consequences
                    KNOWN_HITS.append(F21_KEY)
                    return None
                return fail(inp, 'objects follow the outcome of their transaction', r, cases)
        return None
    finally:
        w.close()


FIXED = [
    [('new', 'a', 'root', False), ('commit',), ('modify', 'a'), ('abort',), ('modify', 'a'), ('commit',)],
    [('new', 'a', 'root', True), ('abort',), ('new', 'b', 'root', True), ('commit',)],
    [('new', 'a', 'root', False), ('new', 'b', 'a', False), ('commit',), ('modify', 'b'),
     ('new', 'c', 'b', False), ('fail', 'commit'), ('modify', 'b'), ('commit',)],
    [('new', 'a', 'root', False), ('commit',), ('modify', 'a'), ('new', 'n', 'a', False), ('fail', 'vote'),
     ('link', 'root', 'n'), ('commit',)],
    [('new', 'a', 'root', False), ('commit',), ('modify', 'a'), ('new', 'n', 'a', True), ('fail', 'finish'),
     ('modify', 'a'), ('commit',)],
    [('new', 'a', 'root', False), ('commit',), ('modify', 'a'), ('close-inside',), ('commit',),
     ('close-inside',), ('modify', 'a'), ('commit',)],
    [('new', 'a', 'root', False), ('commit',), ('add-refused',), ('modify', 'a'), ('commit',)],
    [('new', 'a', 'root', False), ('new', 'b', 'root', False), ('commit',), ('modify', 'a'),
     ('new', 'c', 'a', False), ('modify', 'b'), ('fail', 'commit'), ('link', 'root', 'c'), ('commit',)],
    [('new', 'a', 'root', False), ('commit',), ('modify', 'a'), ('fail', 'pickle'), ('modify', 'a'), ('commit',)],
    [('new', 'a', 'root', False), ('fail', 'pickle'), ('link', 'root', 'a'), ('commit',)],
    [('new', 'a', 'root', False), ('commit',), ('unlink', 'root', 'a'), ('commit',), ('modify', 'a'),
     ('commit',), ('reopen',), ('new', 'z', 'root', True), ('commit',)],
]


def random_program(rnd):
    names = []
    prog = []
    for _ in range(rnd.randint(4, 12)):
        k = rnd.random()
        if k < 0.25 or not names:
            n = 'n%d' % (len(names) + 1)
            prog.append(('new', n, rnd.choice(['root'] + names), rnd.random() < 0.4))
            names.append(n)
        elif k < 0.45:
            prog.append(('modify', rnd.choice(names)))
        elif k < 0.52:
            prog.append(('link', rnd.choice(['root'] + names), rnd.choice(names)))
        elif k < 0.6:
            prog.append(('unlink', rnd.choice(['root'] + names), rnd.choice(names)))
        elif k < 0.75:
            prog.append(('commit',))
        elif k < 0.83:
            prog.append(('abort',))
        elif k < 0.93:
            prog.append(('fail', rnd.choice(['commit', 'vote', 'finish', 'pickle'])))
        elif k < 0.97:
            prog.append(('close-inside',))
        else:
            prog.append(('reopen',))
    prog.append(('commit',))
    return prog


def search(func, candidate, seed, tier, obligation=''):
    logging.disable(logging.CRITICAL)
    cases = 0
    for kind in ('mapping', 'file', 'demo'):
        for prog in FIXED:
            cases += 1
            r = run_program(kind, prog, cases)
            if r:
                return r
    rnd = random.Random(seed)
    for n in range(60 if tier == 'quick' else 600):
        prog = random_program(rnd)
        kind = ('mapping', 'file', 'demo')[n % 3]
        cases += 1
        r = run_program(kind, prog, cases)
        if r:
            return r
    return {'found': False, 'cases': cases, 'known_hits': sorted(set(KNOWN_HITS)),
            'programs_cut_short_at_a_known_finding': len(KNOWN_HITS)}
