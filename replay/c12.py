"""C12 concretiser (family P): straight-line programs of object modifications, additions, savepoints,
rollbacks (repeated, nested, after further savepoints), commits and aborts on a real Connection,
checked against a pure-python model after every step.
Bound: 6 fixed programs + 150 (thorough: 2000) random programs of <= 14 steps over 3 existing and
up to 4 new objects (seed VERIF_SEED)."""
import logging
import random

import transaction
from persistent import Persistent

import ZODB
from ZODB.MappingStorage import MappingStorage


class P(Persistent):
    def __init__(self, v=0):
        self.v = v


FIXED = [
    # repeated rollback to the same savepoint with an object created in between (aliasing of `creating`)
    ['sp', 'add0', 'sp', 'rb0', 'add1', 'sp', 'rb0', 'commit'],
    ['sp', 'set0', 'sp', 'set1', 'rb0', 'rb0', 'commit'],
    # nested savepoints, rollback to the outer one (first record after the savepoint position)
    ['set0', 'sp', 'set1', 'sp', 'rb0', 'check', 'rb0', 'set1', 'commit'],
    ['sp', 'set1', 'sp', 'set2', 'sp', 'rb1', 'rb0', 'abort'],
    ['add0', 'sp', 'set0', 'add1', 'sp', 'rb1', 'set2', 'sp', 'rb0', 'commit'],
    ['sp', 'add0', 'setn0', 'sp', 'rb1', 'rb0', 'add0', 'commit'],
]


def random_program(rnd):
    prog = []
    nsp = 0
    for _ in range(rnd.randint(4, 14)):
        r = rnd.random()
        if r < 0.3:
            prog.append('set%d' % rnd.randint(0, 2))
        elif r < 0.45:
            prog.append('add%d' % rnd.randint(0, 3))
        elif r < 0.55:
            prog.append('setn%d' % rnd.randint(0, 3))
        elif r < 0.75:
            prog.append('sp')
            nsp += 1
        elif r < 0.95 and nsp:
            prog.append('rb%d' % rnd.randint(0, nsp - 1))
        else:
            prog.append('check')
    prog.append(rnd.choice(['commit', 'abort']))
    return prog


def run_program(prog):
    """-> None or (step index, expected, observed)"""
    db = ZODB.DB(MappingStorage())
    tm = transaction.TransactionManager()
    conn = db.open(tm)
    root = conn.root()
    olds = [P(0), P(0), P(0)]
    for i, o in enumerate(olds):
        root['old%d' % i] = o
    tm.commit()
    news = [P(100 + i) for i in range(4)]
    counter = [0]
    model = {'old': [0, 0, 0], 'new': {}}          # new: index -> value for added objects
    committed = {'old': [0, 0, 0], 'new': {}}
    sps = []                                        # (savepoint, model snapshot)

    def snap(m):
        return {'old': list(m['old']), 'new': dict(m['new'])}

    def verify(step):
        for i, o in enumerate(olds):
            if o.v != model['old'][i]:
                return (step, 'old%d.v == %r' % (i, model['old'][i]), 'old%d.v == %r' % (i, o.v))
        for i, o in enumerate(news):
            if i in model['new']:
                if o._p_jar is not conn or o._p_oid is None:
                    return (step, 'new%d belongs to the connection' % i,
                            'new%d: jar=%r oid=%r' % (i, o._p_jar, o._p_oid))
                if o.v != model['new'][i]:
                    return (step, 'new%d.v == %r' % (i, model['new'][i]), 'new%d.v == %r' % (i, o.v))
            else:
                if o._p_jar is not None or o._p_oid is not None:
                    return (step, 'new%d is un-added (no jar, no oid)' % i,
                            'new%d: jar=%r oid=%r' % (i, o._p_jar, o._p_oid))
        return None
    try:
        for step, op in enumerate(prog):
            if op.startswith('setn'):
                i = int(op[4:])
                if i in model['new']:
                    counter[0] += 1
                    news[i].v = 1000 + counter[0]
                    model['new'][i] = news[i].v
            elif op.startswith('set'):
                i = int(op[3:])
                counter[0] += 1
                olds[i].v = counter[0]
                model['old'][i] = counter[0]
            elif op.startswith('add'):
                i = int(op[3:])
                if i not in model['new'] and news[i]._p_jar is None:
                    conn.add(news[i])
                    model['new'][i] = news[i].v
            elif op == 'sp':
                sps.append((tm.savepoint(), snap(model)))
            elif op.startswith('rb'):
                k = int(op[2:])
                if k < len(sps):
                    sp, m = sps[k]
                    sp.rollback()
                    model.update(snap(m))
                    del sps[k + 1:]
            elif op == 'commit':
                # new objects must be reachable to be stored: attach them to the root
                for i in model['new']:
                    root['new%d' % i] = news[i]
                tm.commit()
                committed = snap(model)
                sps = []
                c2 = db.open(transaction.TransactionManager())
                try:
                    r2 = c2.root()
                    for i in range(3):
                        if r2['old%d' % i].v != committed['old'][i]:
                            return (step, 'committed old%d.v == %r' % (i, committed['old'][i]),
                                    'other connection reads %r' % r2['old%d' % i].v)
                    for i, v in committed['new'].items():
                        if r2['new%d' % i].v != v:
                            return (step, 'committed new%d.v == %r' % (i, v),
                                    'other connection reads %r' % r2['new%d' % i].v)
                finally:
                    c2.close()
            elif op == 'abort':
                tm.abort()
                model.update(snap(committed))
                sps = []
            r = verify(step)
            if r:
                return r
        return None
    finally:
        try:
            tm.abort()
            conn.close()
            db.close()
        except Exception:
            pass


def conflict_scenario(with_savepoint):
    """a commit that fails (conflict with another connection) while savepoint data is being
    copied into the storage: afterwards the objects created in the transaction are un-added"""
    from ZODB.POSException import ConflictError
    db = ZODB.DB(MappingStorage())
    try:
        tm = transaction.TransactionManager()
        conn = db.open(tm)
        root = conn.root()
        root['a'] = P(0)
        tm.commit()
        new = P(7)
        root['a'].v = 1
        conn.add(new)
        root['new'] = new
        if with_savepoint:
            tm.savepoint()
        tm2 = transaction.TransactionManager()
        c2 = db.open(tm2)
        c2.root()['a'].v = 5
        tm2.commit()
        c2.close()
        try:
            tm.commit()
            return ('commit', 'ConflictError', 'commit succeeded')
        except ConflictError:
            pass
        tm.abort()
        if new._p_jar is not None or new._p_oid is not None:
            return ('after failed commit + abort', 'new object un-added (no jar, no oid)',
                    'jar=%r oid=%r' % (new._p_jar, new._p_oid))
        if conn.root()['a'].v != 5:
            return ('after failed commit + abort', 'a.v == 5 (last committed)',
                    'a.v == %r' % conn.root()['a'].v)
        return None
    finally:
        db.close()


def blob_scenarios():
    """blob data inside savepoints: rollback restores the blob bytes of the savepoint, any number of
    times, and commit stores what the program last saw"""
    import os
    import shutil
    import tempfile
    from ZODB.FileStorage import FileStorage
    from ZODB.blob import Blob
    scripts = [
        ('write one; sp1; write two; sp2; rollback sp1; read; commit',
         [('w', b'one'), ('sp',), ('w', b'two'), ('sp',), ('rb', 0), ('r', b'one'), ('commit', b'one')]),
        ('write one; sp1; write two; rollback sp1; read; write three; sp2; rollback sp1; read; commit',
         [('w', b'one'), ('sp',), ('w', b'two'), ('rb', 0), ('r', b'one'), ('w', b'three'), ('sp',),
          ('rb', 0), ('r', b'one'), ('commit', b'one')]),
        ('write one; sp1; write two; sp2; write three; rollback sp2; read; rollback sp1; read; commit',
         [('w', b'one'), ('sp',), ('w', b'two'), ('sp',), ('w', b'three'), ('rb', 1), ('r', b'two'),
          ('rb', 0), ('r', b'one'), ('commit', b'one')]),
        ('committed zero; write one; sp1; write two; sp2; rollback sp1; read; abort; read',
         [('w', b'zero'), ('commit', b'zero'), ('w', b'one'), ('sp',), ('w', b'two'), ('sp',), ('rb', 0),
          ('r', b'one'), ('abort',), ('r', b'zero')]),
    ]
    for name, script in scripts:
        d = tempfile.mkdtemp(prefix='c12-blob-')
        try:
            st = FileStorage(os.path.join(d, 'Data.fs'), blob_dir=os.path.join(d, 'blobs'))
            db = ZODB.DB(st)
            tm = transaction.TransactionManager()
            conn = db.open(tm)
            b = Blob()
            conn.root()['b'] = b
            sps = []
            for k, step in enumerate(script):
                if step[0] == 'w':
                    with b.open('w') as f:
                        f.write(step[1])
                elif step[0] == 'sp':
                    sps.append(tm.savepoint())
                elif step[0] == 'rb':
                    sps[step[1]].rollback()
                    del sps[step[1] + 1:]
                elif step[0] == 'r':
                    with b.open('r') as f:
                        got = f.read()
                    if got != step[1]:
                        return (name, k, 'the blob reads %r' % step[1], 'it reads %r' % got)
                elif step[0] == 'abort':
                    tm.abort()
                    sps = []
                elif step[0] == 'commit':
                    tm.commit()
                    sps = []
                    c2 = db.open(transaction.TransactionManager())
                    with c2.root()['b'].open('r') as f:
                        got = f.read()
                    c2.close()
                    if got != step[1]:
                        return (name, k, 'another connection reads %r after the commit' % step[1],
                                'it reads %r' % got)
            db.close()
        except Exception as e:  # noqa
            return (name, -1, 'scenario runs', '%s: %s' % (type(e).__name__, e))
        finally:
            shutil.rmtree(d, ignore_errors=True)
    return None


def search(func, candidate, seed, tier, obligation=''):
    logging.disable(logging.CRITICAL)
    cases = 1
    r = blob_scenarios()
    if r:
        return {'found': True, 'cases': cases, 'input': {'blob_scenario': r[0], 'failing_step': r[1]},
                'expected': r[2], 'observed': r[3]}
    for sp in (True, False):
        cases += 1
        r = conflict_scenario(sp)
        if r:
            return {'found': True, 'cases': cases,
                    'input': {'scenario': 'modify a; add new; %scommit conflicting change to a in another '
                              'connection; commit (fails); abort' % ('savepoint; ' if sp else '')},
                    'expected': r[1], 'observed': r[2]}
    rnd = random.Random(seed)
    progs = list(FIXED) + [random_program(rnd) for _ in range(150 if tier == 'quick' else 2000)]
    for prog in progs:
        cases += 1
        try:
            r = run_program(prog)
        except Exception as e:  # noqa
            r = (len(prog), 'program runs', '%s: %s' % (type(e).__name__, e))
        if r:
            return {'found': True, 'cases': cases,
                    'input': {'program': prog, 'failing_step': r[0],
                              'legend': 'setK: modify existing object K; addK: conn.add(new object K); '
                                        'setnK: modify new object K; sp: savepoint; rbK: rollback to K-th '
                                        'savepoint'},
                    'expected': r[1], 'observed': r[2]}
    return {'found': False, 'cases': cases}
