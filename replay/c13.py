"""C13 concretiser (family S/P): blob files versus committed blob records on the real storages.
Bounded scenarios: store a blob and abort at each phase (before vote / after vote / failed vote),
commit, rewrite, undo, pack; FileStorage with a blob directory and BlobStorage over MappingStorage."""
import logging
import os
import shutil
import tempfile

from ZODB.utils import p64, z64

from . import fsharness as H


def blob_files(blob_dir):
    out = []
    for root, dirs, files in os.walk(blob_dir):
        if os.path.basename(root) == 'tmp' and root.count(os.sep) == blob_dir.count(os.sep) + 1:
            continue
        for f in files:
            if f.endswith('.blob'):
                out.append(os.path.join(root, f))
    return sorted(out)


def fail(inp, exp, obs, cases):
    return {'found': True, 'input': inp, 'expected': exp, 'observed': obs, 'cases': cases}


def mk_blob_source(d, content):
    fd, name = tempfile.mkstemp(dir=d, suffix='.src')
    os.write(fd, content)
    os.close(fd)
    return name


def search(func, candidate, seed, tier, obligation=''):
    logging.disable(logging.CRITICAL)
    from ZODB.blob import BlobStorage
    from ZODB.MappingStorage import MappingStorage
    cases = 0
    for kind in ('file', 'wrapper'):
        for phase in ('store', 'vote', 'finish'):
            d = tempfile.mkdtemp(prefix='c13-')
            try:
                bd = os.path.join(d, 'blobs')
                if kind == 'file':
                    st = H.FileStorage(os.path.join(d, 'Data.fs'), create=True, blob_dir=bd)
                else:
                    st = BlobStorage(bd, MappingStorage())
                try:
                    cases += 1
                    t = H.Txn()
                    st.tpc_begin(t)
                    src = mk_blob_source(st.temporaryDirectory(), b'blob bytes 1')
                    st.storeBlob(p64(1), z64, b'record', src, '', t)
                    if phase == 'store':
                        st.tpc_abort(t)
                    elif phase == 'vote':
                        st.tpc_vote(t)
                        st.tpc_abort(t)
                    else:
                        st.tpc_vote(t)
                        tid = st.tpc_finish(t)
                    files = blob_files(bd)
                    inp = {'storage': kind, 'scenario': 'tpc_begin; storeBlob; ' + (
                        'tpc_abort' if phase == 'store' else 'tpc_vote; tpc_abort' if phase == 'vote'
                        else 'tpc_vote; tpc_finish')}
                    if phase != 'finish':
                        if files:
                            return fail(inp, 'no file of the aborted transaction in the blob directory',
                                        'left behind: %r' % [os.path.relpath(f, bd) for f in files], cases)
                        dirty = getattr(st, 'dirty_oids', None)
                        if dirty:
                            return fail(inp, 'dirty blob list empty after abort', repr(dirty), cases)
                    else:
                        if len(files) != 1:
                            return fail(inp, 'exactly one committed blob file', repr(files), cases)
                        with open(st.loadBlob(p64(1), tid), 'rb') as f:
                            if f.read() != b'blob bytes 1':
                                return fail(inp, 'blob bytes as written', 'different bytes', cases)
                    # a call with a foreign transaction must be without effect on a blob in flight
                    cases += 1
                    t1, t2 = H.Txn(), H.Txn()
                    st.tpc_begin(t1)
                    src = mk_blob_source(st.temporaryDirectory(), b'blob bytes 2')
                    st.storeBlob(p64(2), z64, b'record2', src, '', t1)
                    st.tpc_abort(t2)
                    st.tpc_vote(t1)
                    tid2 = st.tpc_finish(t1)
                    try:
                        fn = st.loadBlob(p64(2), tid2)
                        ok = open(fn, 'rb').read() == b'blob bytes 2'
                    except Exception as e:  # noqa
                        ok = False
                    if not ok:
                        return fail({'storage': kind, 'scenario': 'tpc_begin(t1); storeBlob(t1); '
                                     'tpc_abort(t2); tpc_vote(t1); tpc_finish(t1)'},
                                    'committed blob readable', 'blob file missing', cases)
                    # a finish that is refused (handle of another transaction) makes nothing durable; the abort of
                    # the real transaction afterwards must still remove the blob file moved into place by storeBlob
                    cases += 1
                    before0 = set(blob_files(bd))
                    t1, t2 = H.Txn(), H.Txn()
                    st.tpc_begin(t1)
                    src = mk_blob_source(st.temporaryDirectory(), b'blob bytes 3')
                    st.storeBlob(p64(3), z64, b'record3', src, '', t1)
                    st.tpc_vote(t1)
                    try:
                        st.tpc_finish(t2)
                        refused = False
                    except Exception:  # noqa
                        refused = True
                    st.tpc_abort(t1)
                    left = sorted(os.path.relpath(f, bd) for f in set(blob_files(bd)) - before0)
                    if refused and left:
                        return fail({'storage': kind, 'scenario': 'tpc_begin(t1); storeBlob(t1); tpc_vote(t1); '
                                     'tpc_finish(t2) refused; tpc_abort(t1)'},
                                    'no file of the aborted transaction in the blob directory',
                                    'left behind: %r' % left, cases)
                finally:
                    st.close()
            finally:
                shutil.rmtree(d, ignore_errors=True)
    # ---- two connections: a blob rewritten by one is seen by the other at its next boundary (both storages)
    import transaction
    import ZODB
    from ZODB.blob import Blob
    for kind in ('file', 'wrapper'):
        d = tempfile.mkdtemp(prefix='c13mv-')
        try:
            bd = os.path.join(d, 'blobs')
            if kind == 'file':
                st = H.FileStorage(os.path.join(d, 'Data.fs'), create=True, blob_dir=bd)
            else:
                st = BlobStorage(bd, MappingStorage())
            db = ZODB.DB(st)
            tm1, tm2 = transaction.TransactionManager(), transaction.TransactionManager()
            c1, c2 = db.open(tm1), db.open(tm2)
            c1.root()['b'] = Blob()
            c1.root()['n'] = 0
            with c1.root()['b'].open('w') as f:
                f.write(b'first')
            tm1.commit()
            tm2.begin()
            with c2.root()['b'].open('r') as f:
                seen0 = f.read()
            with c1.root()['b'].open('w') as f:
                f.write(b'second')
            c1.root()['n'] = 1
            tm1.commit()
            tm2.begin()
            cases += 1
            with c2.root()['b'].open('r') as f:
                seen1 = f.read()
            n1 = c2.root()['n']
            r = None
            if seen0 != b'first' or seen1 != b'second' or n1 != 1:
                r = fail({'storage': kind, 'scenario': 'conn2 reads the blob; conn1 rewrites it and commits; conn2 '
                          'begins a new transaction and reads again'},
                         "conn2 reads b'second' and n == 1 (one snapshot)", 'reads %r, n == %r' % (seen1, n1), cases)
            if r is None:
                # an append on top of the other connection's rewrite: ordinary write, no stale base
                try:
                    with c2.root()['b'].open('a') as f:
                        f.write(b'+more')
                    tm2.commit()
                    tm1.begin()
                    with c1.root()['b'].open('r') as f:
                        seen2 = f.read()
                    cases += 1
                    if seen2 != b'second+more':
                        r = fail({'storage': kind, 'scenario': 'conn2 appends after conn1 rewrote the blob'},
                                 "b'second+more'", repr(seen2), cases)
                except Exception as e:  # noqa
                    tm2.abort()
                    r = fail({'storage': kind, 'scenario': 'conn2 appends after conn1 rewrote the blob (no '
                              'concurrent change)'}, 'commit accepted', '%s: %s' % (type(e).__name__, e), cases)
            c1.close()
            c2.close()
            db.close()
            if r:
                return r
        finally:
            shutil.rmtree(d, ignore_errors=True)
    # ---- higher level: blob create / rewrite / undo / redo / pack through a DB on FileStorage
    for keep_old in (True, False):
        d = tempfile.mkdtemp(prefix='c13db-')
        try:
            bd = os.path.join(d, 'blobs')
            st = H.FileStorage(os.path.join(d, 'Data.fs'), create=True, blob_dir=bd,
                               pack_keep_old=keep_old)
            db = ZODB.DB(st)
            tm = transaction.TransactionManager()
            conn = db.open(tm)
            root = conn.root()

            def committed_blob_records():
                out = set()
                for t in st.iterator():
                    for r in t:
                        if r.data and st.is_blob_record(r.data):
                            out.add((r.oid, r.tid))
                return out

            def check(label):
                files = set()
                for f in blob_files(bd):
                    oidpart = os.path.relpath(os.path.dirname(f), bd)
                    oid = st.fshelper.layout.path_to_oid(oidpart)
                    files.add((oid, bytes.fromhex(os.path.basename(f)[2:-5].rjust(16, '0'))))
                recs = committed_blob_records()
                if files != recs:
                    return (label, 'blob files == committed blob records (%d)' % len(recs),
                            'files without record: %r; records without file: %r' % (
                                sorted(x[1].hex() for x in files - recs),
                                sorted(x[1].hex() for x in recs - files)))
                return None

            def write(text):
                with root['b'].open('w') as f:
                    f.write(text)
            root['b'] = Blob()
            write(b'one')
            tm.commit()
            write(b'two')
            tm.commit()
            steps = []
            cases += 1
            r = check('create + rewrite')
            # undo of the rewrite inside a transaction that aborts after the storage voted
            undo_id = db.undoLog(0, 1)[0]['id']

            class Veto:
                def sortKey(self):
                    return '~~~~'

                def abort(self, t):
                    pass
                tpc_begin = commit = tpc_abort = tpc_finish = abort

                def tpc_vote(self, t):
                    raise RuntimeError('veto')
            if not r:
                db.undo(undo_id, tm.get())
                tm.get().join(Veto())
                try:
                    tm.commit()
                except RuntimeError:
                    tm.abort()
                cases += 1
                r = check('undo of a blob rewrite, aborted after the storage voted')
            if not r:
                db.undo(undo_id, tm.get())
                tm.commit()
                cases += 1
                r = check('undo of a blob rewrite, committed')
                conn.sync()
                if not r and root['b'].open('r').read() != b'one':
                    r = ('undo', "blob reads b'one' again", 'reads %r' % root['b'].open('r').read())
            if not r:
                write(b'three')
                tm.commit()
                import time as _t
                _t.sleep(0.01)
                db.pack(_t.time())
                cases += 1
                r = check('pack after create, rewrite, undo, rewrite (keep_old=%s)' % keep_old)
                if not r and root['b'].open('r').read() != b'three':
                    r = ('pack', "blob reads b'three'", 'reads %r' % root['b'].open('r').read())
            conn.close()
            db.close()
            if r:
                return fail({'scenario': r[0], 'pack_keep_old': keep_old}, r[1], r[2], cases)
        finally:
            shutil.rmtree(d, ignore_errors=True)
    return {'found': False, 'cases': cases}
