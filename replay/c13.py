"""C13 concretiser (family S/P): blob files versus committed blob records on the real storages.
Bounded scenarios: store a blob and abort at each phase (before vote / after vote / failed vote),
commit, rewrite, undo, pack; FileStorage with a blob directory and BlobStorage over MappingStorage."""
import logging
import os
import shutil
import tempfile

from ZODB.utils import p64, z64

from . import fsharness as H


def blob_files(blob_dir):
    out = []
    for root, dirs, files in os.walk(blob_dir):
        if os.path.basename(root) == 'tmp' and root.count(os.sep) == blob_dir.count(os.sep) + 1:
            continue
        for f in files:
            if f.endswith('.blob'):
                out.append(os.path.join(root, f))
    return sorted(out)


def fail(inp, exp, obs, cases):
    return {'found': True, 'input': inp, 'expected': exp, 'observed': obs, 'cases': cases}


def mk_blob_source(d, content):
    fd, name = tempfile.mkstemp(dir=d, suffix='.src')
    os.write(fd, content)
    os.close(fd)
    return name


def search(func, candidate, seed, tier, obligation=''):
    logging.disable(logging.CRITICAL)
    from ZODB.blob import BlobStorage
    from ZODB.MappingStorage import MappingStorage
    cases = 0
    for kind in ('file', 'wrapper'):
        for phase in ('store', 'vote', 'finish'):
            d = tempfile.mkdtemp(prefix='c13-')
            try:
                bd = os.path.join(d, 'blobs')
                if kind == 'file':
                    st = H.FileStorage(os.path.join(d, 'Data.fs'), create=True, blob_dir=bd)
                else:
                    st = BlobStorage(bd, MappingStorage())
                try:
                    cases += 1
                    t = H.Txn()
                    st.tpc_begin(t)
                    src = mk_blob_source(st.temporaryDirectory(), b'blob bytes 1')
                    st.storeBlob(p64(1), z64, b'record', src, '', t)
                    if phase == 'store':
                        st.tpc_abort(t)
                    elif phase == 'vote':
                        st.tpc_vote(t)
                        st.tpc_abort(t)
                    else:
                        st.tpc_vote(t)
                        tid = st.tpc_finish(t)
                    files = blob_files(bd)
                    inp = {'storage': kind, 'scenario': 'tpc_begin; storeBlob; ' + (
                        'tpc_abort' if phase == 'store' else 'tpc_vote; tpc_abort' if phase == 'vote'
                        else 'tpc_vote; tpc_finish')}
                    if phase != 'finish':
                        if files:
                            return fail(inp, 'no file of the aborted transaction in the blob directory',
                                        'left behind: %r' % [os.path.relpath(f, bd) for f in files], cases)
                        dirty = getattr(st, 'dirty_oids', None)
                        if dirty:
                            return fail(inp, 'dirty blob list empty after abort', repr(dirty), cases)
                    else:
                        if len(files) != 1:
                            return fail(inp, 'exactly one committed blob file', repr(files), cases)
                        with open(st.loadBlob(p64(1), tid), 'rb') as f:
                            if f.read() != b'blob bytes 1':
                                return fail(inp, 'blob bytes as written', 'different bytes', cases)
                    # a call with a foreign transaction must be without effect on a blob in flight
                    cases += 1
                    t1, t2 = H.Txn(), H.Txn()
                    st.tpc_begin(t1)
                    src = mk_blob_source(st.temporaryDirectory(), b'blob bytes 2')
                    st.storeBlob(p64(2), z64, b'record2', src, '', t1)
                    st.tpc_abort(t2)
                    st.tpc_vote(t1)
                    tid2 = st.tpc_finish(t1)
                    try:
                        fn = st.loadBlob(p64(2), tid2)
                        ok = open(fn, 'rb').read() == b'blob bytes 2'
                    except Exception as e:  # noqa
                        ok = False
                    if not ok:
                        return fail({'storage': kind, 'scenario': 'tpc_begin(t1); storeBlob(t1); '
                                     'tpc_abort(t2); tpc_vote(t1); tpc_finish(t1)'},
                                    'committed blob readable', 'blob file missing', cases)
                finally:
                    st.close()
            finally:
                shutil.rmtree(d, ignore_errors=True)
    return {'found': False, 'cases': cases}
