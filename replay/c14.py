"""C14 concretiser (bounded stand-in): random object graphs through the REAL pickler and storage.
Bound: 60 (thorough: 600) random graphs of <= 7 persistent nodes (seed VERIF_SEED): sharing, cycles,
nesting in list/dict/tuple, nodes with __getnewargs__, weak references (placed before or after the first
strong reference to the same new object), cross-database references (two-database setup), an explicitly
added unreachable node; checks: graph loaded in another connection is isomorphic with one object per
oid, referencesf(record) == set of ordinary references written for that record, every stored reference
has a record (no dangling), unreachable new nodes are not stored."""
import logging
import random

import transaction
from persistent import Persistent
from persistent.wref import WeakRef

import ZODB
from ZODB.MappingStorage import MappingStorage
from ZODB.serialize import referencesf
from ZODB.utils import p64, u64, z64
from ZODB import POSException


class Node(Persistent):
    def __init__(self, name):
        self.name = name
        self.slots = {}


class NodeArgs(Persistent):
    """a class with constructor arguments: references to it carry no class info"""

    def __new__(cls, *args):
        return Persistent.__new__(cls)

    def __init__(self, name='x'):
        self.name = name
        self.slots = {}

    def __getnewargs__(self):
        return (self.name,)


def fail(inp, exp, obs, cases):
    return {'found': True, 'input': inp, 'expected': exp, 'observed': obs, 'cases': cases}


def build_plan(rnd):
    n = rnd.randint(2, 7)
    nodes = [('A' if rnd.random() < 0.25 else 'N') for _ in range(n)]
    edges = []      # (src, key, kind, dst, wrap)
    for s in range(n):
        for k in range(rnd.randint(0, 3)):
            d = rnd.randrange(n)
            kind = rnd.choice(['strong', 'strong', 'strong', 'weak'])
            wrap = rnd.choice(['plain', 'list', 'dict', 'tuple'])
            edges.append((s, 'k%d' % k, kind, d, wrap))
    return nodes, edges


def materialise(plan, foreign=None):
    nodes, edges = plan
    objs = [(NodeArgs if t == 'A' else Node)('n%d' % i) for i, t in enumerate(nodes)]
    for s, key, kind, d, wrap in edges:
        v = objs[d] if kind == 'strong' else WeakRef(objs[d])
        if wrap == 'list':
            v = [1, v]
        elif wrap == 'dict':
            v = {'x': v}
        elif wrap == 'tuple':
            v = (v, 'y')
        objs[s].slots[key] = v
    if foreign is not None:
        objs[0].slots['foreign'] = foreign
    return objs


def unwrap(v):
    if isinstance(v, list):
        return v[1]
    if isinstance(v, dict):
        return v['x']
    if isinstance(v, tuple):
        return v[0]
    return v


def reachable(plan):
    nodes, edges = plan
    seen, todo = {0}, [0]
    while todo:
        s = todo.pop()
        for e in edges:
            # a weak reference also causes a new object to be stored (documented behaviour)
            if e[0] == s and e[3] not in seen:
                seen.add(e[3])
                todo.append(e[3])
    return seen


def check_graph(plan, cases):
    nodes, edges = plan
    st = MappingStorage()
    st2 = MappingStorage()
    databases = {}
    db = ZODB.DB(st, databases=databases, database_name='main')
    db2 = ZODB.DB(st2, databases=databases, database_name='other')
    try:
        tm = transaction.TransactionManager()
        conn = db.open(tm)
        other = conn.get_connection('other')
        # the object in the other database: alternately of a plain class and of a class with __getnewargs__ (whose
        # references carry no class information - a different branch of persistent_id)
        foreign = (NodeArgs if len(nodes) % 4 == 0 else Node)('foreign')
        other.root()['f'] = foreign
        tm.commit()
        objs = materialise(plan, foreign if len(nodes) % 2 == 0 else None)
        conn.root()['g'] = objs[0]
        orphan = Node('orphan')          # never reachable, never added
        tm.commit()
        reach = reachable(plan)
        inp = {'nodes': nodes, 'edges': edges}
        for i, o in enumerate(objs):
            if (o._p_oid is not None) != (i in reach):
                return fail(inp, 'node %d stored iff reachable (%s)' % (i, i in reach),
                            'oid %r' % o._p_oid, cases)
        if orphan._p_oid is not None:
            return fail(inp, 'unreachable object not stored', 'stored', cases)
        oid_of = {i: objs[i]._p_oid for i in reach}
        # reference extraction per record
        for i in reach:
            data, _ = st.load(oid_of[i], '')
            got = sorted(referencesf(data))
            want = sorted(oid_of[e[3]] for e in edges if e[0] == i and e[2] == 'strong')
            if got != want:
                return fail(dict(inp, record_of_node=i), 'referencesf == ordinary references %r' % (
                    [u64(x) for x in want],), 'got %r' % ([u64(x) for x in got],), cases)
            for r in got:
                try:
                    st.load(r, '')
                except POSException.POSKeyError:
                    return fail(dict(inp, record_of_node=i), 'every referenced oid has a record',
                                'dangling reference to oid %d' % u64(r), cases)
        # weak references too must not dangle (the target was given an oid by the writer)
        for e in edges:
            if e[0] in reach:
                try:
                    st.load(oid_of[e[3]], '')
                except (POSException.POSKeyError, KeyError):
                    return fail(dict(inp, edge=e), 'target of a stored reference has a record',
                                'node %d has no record' % e[3], cases)
        # load in another connection: isomorphic, one object per oid
        tm2 = transaction.TransactionManager()
        c2 = db.open(tm2)
        loaded = {}
        root0 = c2.root()['g']
        todo = [(root0, 0)]
        while todo:
            o, i = todo.pop()
            if i in loaded:
                if loaded[i] is not o:
                    return fail(inp, 'one in-memory object per oid', 'two objects for node %d' % i, cases)
                continue
            loaded[i] = o
            if o.name != 'n%d' % i or type(o).__name__ != ('NodeArgs' if nodes[i] == 'A' else 'Node'):
                return fail(inp, 'node %d loads as itself' % i, 'name %r type %s' % (o.name, type(o).__name__), cases)
            for e in edges:
                if e[0] == i:
                    v = unwrap(o.slots[e[1]])
                    if e[2] == 'weak':
                        if not isinstance(v, WeakRef):
                            return fail(dict(inp, edge=e), 'weak reference loads as WeakRef', type(v).__name__, cases)
                        v = v()
                    elif isinstance(v, WeakRef):
                        return fail(dict(inp, edge=e), 'strong reference loads as the object', 'WeakRef', cases)
                    if v._p_oid != oid_of[e[3]]:
                        return fail(dict(inp, edge=e), 'reference leads to the object with the same id',
                                    'oid %r' % v._p_oid, cases)
                    todo.append((v, e[3]))
            if 'foreign' in o.slots:
                f = o.slots['foreign']
                if f._p_jar is c2 or f.name != 'foreign':
                    return fail(inp, 'cross-database reference resolves in the other database', 'wrong jar', cases)
        c2.close()
        conn.close()
        return None
    finally:
        db.close()
        db2.close()


def extra_scenarios(cases):
    """(a) one object per id also after ZODB.Connection.resetCaches() and re-opening the pooled connection: an object
    reached by get(oid) and by a stored reference is the same object; (b) a weak reference into a database that is
    not configured never resolves to an object of the local database."""
    import ZODB.Connection
    st = MappingStorage()
    db = ZODB.DB(st)
    try:
        tm = transaction.TransactionManager()
        conn = db.open(tm)
        a, b = Node('a'), Node('b')
        a.slots['peer'] = b
        conn.root()['a'] = a
        conn.root()['b'] = b
        tm.commit()
        oa, ob = a._p_oid, b._p_oid
        conn.close()
        ZODB.Connection.resetCaches()
        c2 = db.open(tm)
        cases += 1
        same_conn = c2 is conn
        via_get_a, via_get_b = c2.get(oa), c2.get(ob)
        via_ref_a = c2.root()['a']
        via_ref_b = via_ref_a.slots['peer']
        if via_get_a is not via_ref_a or via_get_b is not via_ref_b or c2.root()['b'] is not via_get_b:
            return fail({'scenario': 'commit a -> b; close; ZODB.Connection.resetCaches(); db.open() (same pooled '
                         'connection: %s); get(oid) versus the object reached through stored references' % same_conn},
                        'one in-memory object per oid', 'get(oid) and the reference lead to different objects', cases)
        c2.close()
    finally:
        db.close()
    # (b)
    import os
    import shutil
    import tempfile
    from ZODB.FileStorage import FileStorage
    d = tempfile.mkdtemp(prefix='c14-')
    try:
        r = _weak_into_missing_database(d, cases, FileStorage)
    finally:
        shutil.rmtree(d, ignore_errors=True)
    if r.get('found'):
        return r
    return missing_class_comes_back(r['cases'])


def missing_class_comes_back(cases):
    """a class that was missing (its objects loaded as placeholders that keep their state) loads as the real class again
    as soon as its module is importable - also when nobody imported it in between"""
    import importlib
    import os
    import shutil
    import sys
    import tempfile
    d = tempfile.mkdtemp(prefix='c14mod-')
    modname = 'c14_missing_mod_%d' % (abs(hash(d)) % 10 ** 8)
    try:
        with open(os.path.join(d, modname + '.py'), 'w') as f:
            f.write('from persistent import Persistent\n\n\nclass Item(Persistent):\n    def __init__(self, v):\n'
                    '        self.v = v\n        self.child = None\n')
        sys.path.insert(0, d)
        importlib.invalidate_caches()
        mod = importlib.import_module(modname)
        st = MappingStorage()
        db = ZODB.DB(st)
        tm = transaction.TransactionManager()
        conn = db.open(tm)
        a, b = mod.Item('a'), mod.Item('b')
        a.child = b
        conn.root()['item'] = a
        tm.commit()
        conn.close()
        # the module disappears
        sys.path.remove(d)
        del sys.modules[modname]
        importlib.invalidate_caches()
        c2 = db.open(tm)
        c2.cacheMinimize()
        broken = c2.root()['item']
        kept = getattr(broken, '__Broken_state__', None) or getattr(broken, '__dict__', {})
        cases += 1
        if type(broken).__name__ != 'Item' or 'v' not in str(kept):
            return fail({'scenario': 'class missing at load time'}, 'a placeholder that keeps the state',
                        'type %s, state %r' % (type(broken).__name__, kept), cases)
        c2.close()
        # the module is importable again (nobody imports it)
        sys.path.insert(0, d)
        importlib.invalidate_caches()
        db2 = ZODB.DB(st)
        c3 = db2.open(transaction.TransactionManager())
        item = c3.root()['item']
        cases += 1
        ok = type(item).__module__ == modname and getattr(item, 'v', None) == 'a' and \
            getattr(getattr(item, 'child', None), 'v', None) == 'b'
        c3.close()
        if not ok:
            return fail({'scenario': 'objects of a class whose module was missing at an earlier load; the module is '
                         'importable again (not imported by anyone); a fresh DB and connection load the graph'},
                        'real Item instances with their state', 'type %s.%s, attributes %r' % (
                            type(item).__module__, type(item).__name__, sorted(getattr(item, '__dict__', {}))), cases)
    finally:
        if d in sys.path:
            sys.path.remove(d)
        sys.modules.pop(modname, None)
        shutil.rmtree(d, ignore_errors=True)
    return {'found': False, 'cases': cases}


def _weak_into_missing_database(d, cases, FileStorage):
    import os
    st1, st2 = FileStorage(os.path.join(d, 'main.fs')), FileStorage(os.path.join(d, 'other.fs'))
    databases = {}
    db1 = ZODB.DB(st1, databases=databases, database_name='main')
    db2 = ZODB.DB(st2, databases=databases, database_name='other')
    tm = transaction.TransactionManager()
    c1 = db1.open(tm)
    co = c1.get_connection('other')
    for k in range(3):
        co.root()['t%d' % k] = Node('target%d' % k)
        c1.root()['l%d' % k] = Node('local%d' % k)
    tm.commit()
    c1.root()['w'] = Node('holder')
    c1.root()['w'].slots['weak'] = WeakRef(co.root()['t1'])
    tm.commit()
    target_oid = co.root()['t1']._p_oid
    c1.close()
    db1.close()
    db2.close()
    alone = ZODB.DB(FileStorage(os.path.join(d, 'main.fs')), database_name='main')
    try:
        tm = transaction.TransactionManager()
        c = alone.open(tm)
        cases += 1
        try:
            w = c.root()['w'].slots['weak']
            v = w()
            obs = None if v is None else ('object %r of database %r' % (
                getattr(v, 'name', v), v._p_jar.db().database_name if v._p_jar is not None else None))
        except KeyError as e:
            obs = None
        except Exception as e:  # noqa
            obs = None if isinstance(e, (POSException.POSError, AttributeError)) else '%s: %s' % (type(e).__name__, e)
        if obs is not None:
            return fail({'scenario': "weak reference from 'main' to oid %d of database 'other'; 'main' opened without "
                         "'other' configured; the reference is called" % u64(target_oid)},
                        'a dead reference or an error - never an object of another identity', obs, cases)
        c.close()
    finally:
        alone.close()
    return {'found': False, 'cases': cases}


def search(func, candidate, seed, tier, obligation=''):
    logging.disable(logging.CRITICAL)
    rnd = random.Random(seed)
    cases = 0
    fixed = [
        (['N', 'N'], [(0, 'k0', 'weak', 1, 'plain'), (0, 'k1', 'strong', 1, 'plain')]),
        (['N', 'N'], [(0, 'k0', 'strong', 1, 'plain'), (0, 'k1', 'weak', 1, 'plain')]),
        (['N', 'A', 'N'], [(0, 'k0', 'strong', 1, 'list'), (1, 'k0', 'strong', 0, 'dict'),
                           (1, 'k1', 'weak', 2, 'tuple'), (0, 'k1', 'strong', 2, 'plain')]),
    ]
    plans = fixed + [build_plan(rnd) for _ in range(60 if tier == 'quick' else 600)]
    for plan in plans:
        cases += 1
        try:
            r = check_graph(plan, cases)
        except Exception as e:  # noqa
            r = fail({'nodes': plan[0], 'edges': plan[1]}, 'graph stores and loads',
                     '%s: %s' % (type(e).__name__, str(e)[:200]), cases)
        if r:
            return r
    return extra_scenarios(cases)
