"""C15 concretiser: historical connections on a real DB against the model of past states.
Bound: mapping and file storage; 5 commits with a controlled clock (3 h apart); for every commit:
at=tid, before=tid+1, naive-UTC datetime, aware datetime at +05:30 and -08:00; connections kept open
while later commits happen and re-opened from the historical pool; writes refused; future refused."""
import datetime
import logging
import os
import shutil
import tempfile
import time

import transaction
from persistent import Persistent

import ZODB
from ZODB.MappingStorage import MappingStorage
from ZODB.POSException import ReadOnlyHistoryError
from ZODB.utils import p64, u64
from persistent.TimeStamp import TimeStamp


class P(Persistent):
    def __init__(self, v=0):
        self.v = v


def fail(inp, exp, obs, cases):
    return {'found': True, 'input': inp, 'expected': exp, 'observed': obs, 'cases': cases}


def state_of(conn):
    r = conn.root()
    return {k: r[k].v for k in sorted(r.keys())}


def search(func, candidate, seed, tier, obligation=''):
    logging.disable(logging.CRITICAL)
    cases = 0
    real_time = time.time
    for kind in ('mapping', 'file'):
        d = None
        clock = [1.7e9]
        time.time = lambda: clock[0]
        try:
            if kind == 'file':
                d = tempfile.mkdtemp(prefix='c15-')
                from ZODB.FileStorage import FileStorage
                st = FileStorage(os.path.join(d, 'Data.fs'))
            else:
                st = MappingStorage()
            db = ZODB.DB(st)
            tm = transaction.TransactionManager()
            conn = db.open(tm)
            points = []        # (tid, model state, unix time)
            model = {}
            for i in range(5):
                clock[0] += 3 * 3600
                r = conn.root()
                if i % 2 == 0:
                    r['o%d' % i] = P(i)
                    model['o%d' % i] = i
                for k in list(model):
                    if (i + len(k)) % 2:
                        r[k].v = 10 * i + 1
                        model[k] = 10 * i + 1
                if i == 3 and 'o0' in model:
                    del r['o0']
                    del model['o0']
                tm.commit()
                points.append((db.lastTransaction(), dict(model), clock[0]))
                # historical views of every earlier point, opened now and kept
                held = []
                for tid, m, ut in points:
                    naive = datetime.datetime.utcfromtimestamp(ut + 1)
                    forms = [('at=tid', dict(at=tid)), ('before=tid+1', dict(before=p64(u64(tid) + 1)))]
                    if float(ut).is_integer():
                        # the moment of the commit itself, as a datetime: `at` is inclusive
                        forms.append(('at=utc-datetime-of-the-commit-itself',
                                      dict(at=datetime.datetime.utcfromtimestamp(ut))))
                    if tid != points[-1][0]:
                        # a moment one second after this commit (a later commit exists)
                        forms.append(('at=naive-utc-datetime', dict(at=naive)))
                        for hours in (5.5, -8):
                            tz = datetime.timezone(datetime.timedelta(hours=hours))
                            aware = datetime.datetime.fromtimestamp(ut + 1, tz)
                            forms.append(('at=aware-datetime(%+g h)' % hours, dict(at=aware)))
                    for label, kw in forms:
                        cases += 1
                        try:
                            hc = db.open(transaction.TransactionManager(), **kw)
                        except Exception as e:  # noqa
                            return fail({'storage': kind, 'open': label, 'point': tid.hex()},
                                        'historical connection opens', '%s: %s' % (type(e).__name__, e), cases)
                        got = state_of(hc)
                        if got != m:
                            return fail({'storage': kind, 'open': label, 'point': tid.hex()},
                                        'state %r' % m, 'state %r' % got, cases)
                        held.append((label, tid, m, hc))
                # writes through a historical connection are refused
                label, tid, m, hc = held[0]
                hc.root()['zzz'] = P(1)
                try:
                    hc.transaction_manager.commit()
                    return fail({'storage': kind}, 'commit through a historical connection refused',
                                'commit accepted', cases)
                except ReadOnlyHistoryError:
                    hc.transaction_manager.abort()
                # a later commit must not change what the held connections show (uncached loads too)
                clock[0] += 60
                conn.root()['late%d' % i] = P(99)
                for k in list(model):
                    conn.root()[k].v = 777
                tm.commit()
                for k in list(model):
                    model[k] = 777
                model['late%d' % i] = 99
                points.append((db.lastTransaction(), dict(model), clock[0]))
                for label, tid, m, hc in held:
                    cases += 1
                    hc.cacheMinimize()
                    got = state_of(hc)
                    if got != m:
                        return fail({'storage': kind, 'open': label, 'point': tid.hex(),
                                     'then': 'a live connection committed'}, 'state %r' % m,
                                    'state %r' % got, cases)
                    hc.close()
                # re-open from the historical pool
                tid, m, ut = points[-2]
                hc = db.open(transaction.TransactionManager(), at=tid)
                got = state_of(hc)
                hc.close()
                if got != m:
                    return fail({'storage': kind, 'open': 'pooled at=tid'}, 'state %r' % m,
                                'state %r' % got, cases)
            # a point later than the newest transaction is refused
            last = db.lastTransaction()
            future = TimeStamp(last).laterThan(TimeStamp(last)).raw()
            future = p64(u64(future) + 10 ** 12)
            cases += 1
            try:
                db.open(transaction.TransactionManager(), before=future)
                return fail({'storage': kind, 'open': 'before=far future'}, 'ValueError', 'accepted', cases)
            except ValueError:
                pass
            aware_future = datetime.datetime.fromtimestamp(clock[0] + 3600, datetime.timezone(
                datetime.timedelta(hours=-8)))
            try:
                db.open(transaction.TransactionManager(), at=aware_future)
                return fail({'storage': kind, 'open': 'at=aware datetime one hour after the newest '
                             'transaction'}, 'ValueError', 'accepted', cases)
            except ValueError:
                pass
            # ... also when the wall clock has moved on since (an idle database): any bound past the stamp that
            # follows the newest transaction is in the future of the DATABASE, whatever the time of day
            clock[0] += 86400
            nxt = TimeStamp(last).laterThan(TimeStamp(last)).raw()
            for label, kw in (('before=(stamp after last)+1', dict(before=p64(u64(nxt) + 1))),
                              ('at=last+1', dict(at=p64(u64(last) + 1))),
                              ('at=naive datetime one hour after the newest transaction',
                               dict(at=datetime.datetime.utcfromtimestamp(clock[0] - 86400 + 3600)))):
                cases += 1
                try:
                    db.open(transaction.TransactionManager(), **kw)
                    return fail({'storage': kind, 'open': label, 'clock': 'one day after the newest transaction'},
                                'ValueError (a point later than the newest transaction is refused)', 'accepted', cases)
                except ValueError:
                    pass
            # the two largest accepted bounds still open
            for label, kw in (('at=last', dict(at=last)), ('before=stamp after last', dict(before=nxt))):
                cases += 1
                try:
                    hc = db.open(transaction.TransactionManager(), **kw)
                    got = state_of(hc)
                    hc.close()
                except Exception as e:  # noqa
                    return fail({'storage': kind, 'open': label}, 'opens', '%s: %s' % (type(e).__name__, e), cases)
                if got != points[-1][1]:
                    return fail({'storage': kind, 'open': label}, 'state %r' % points[-1][1], 'state %r' % got, cases)
            tm.abort()
            conn.close()
            db.close()
        finally:
            time.time = real_time
            if d:
                shutil.rmtree(d, ignore_errors=True)
    r = multi_database(cases)
    return r


def multi_database(cases):
    """a historical connection's partner connections in other databases read at the same bound and cannot write"""
    databases = {}
    db1 = ZODB.DB(MappingStorage(), databases=databases, database_name='1')
    db2 = ZODB.DB(MappingStorage(), databases=databases, database_name='2')
    try:
        tm = transaction.TransactionManager()
        c1 = db1.open(tm)
        c2 = c1.get_connection('2')
        c2.root()['x'] = P(1)
        tm.commit()
        c1.root()['ref'] = c2.root()['x']
        tm.commit()
        point = max(db1.lastTransaction(), db2.lastTransaction())
        time.sleep(0.002)
        c2.root()['x'].v = 2
        c1.root()['later'] = P(5)
        tm.commit()
        htm = transaction.TransactionManager()
        hc = db1.open(htm, at=point)
        cases += 1
        x = hc.root()['ref']
        inp = {'scenario': "two databases; db '1' holds a reference to x in db '2'; x changed after the point; "
               "db1.open(at=point); the reference is followed"}
        if x.v != 1 or 'later' in hc.root():
            return fail(inp, 'x.v == 1 (the state at the point)', 'x.v == %r' % x.v, cases)
        if x._p_jar.before is None or x._p_jar.before > hc.before:
            return fail(inp, 'partner connection reads at a bound not later than %r' % hc.before,
                        'partner bound %r' % x._p_jar.before, cases)
        x.v = 3
        cases += 1
        try:
            htm.commit()
            return fail(inp, 'commit through the historical connection (partner) refused', 'commit accepted', cases)
        except ReadOnlyHistoryError:
            htm.abort()
        hc.close()
        # the partner database has not been written for a while: every later point of db '1' is still a valid past
        # point, and the partner shows its newest state
        for k in range(2):
            time.sleep(0.002)
            c1.root()['only_in_1_%d' % k] = P(k)
            tm.commit()
        point2 = db1.lastTransaction()
        cases += 1
        inp = {'scenario': "two databases; the last two commits touched only db '1'; db1.open(at=its newest "
               "transaction); the reference into db '2' is followed"}
        htm = transaction.TransactionManager()
        try:
            hc = db1.open(htm, at=point2)
            got = hc.root()['ref'].v
        except Exception as e:  # noqa
            return fail(inp, 'x.v == 2 (the state of db 2 at that moment)', '%s: %s' % (type(e).__name__, e), cases)
        if got != 2:
            return fail(inp, 'x.v == 2', 'x.v == %r' % got, cases)
        # ... and stays so while db '2' is written afterwards
        c2.root()['x'].v = 9
        tm.commit()
        hc.cacheMinimize()
        cases += 1
        if hc.root()['ref'].v != 2:
            return fail(dict(inp, then="db '2' committed x.v = 9"), 'x.v == 2', 'x.v == %r' % hc.root()['ref'].v, cases)
        hc.close()
        c1.close()
    finally:
        db1.close()
        db2.close()
    return {'found': False, 'cases': cases}
