"""C16 concretiser (family S): DemoStorage over {mapping,file} x {mapping,file} layers.
Bound: 2 base histories x 3 demo histories (<=4 transactions, objects changed 0..3 times on top of the
base), every loadBefore boundary, loadSerial, getTid, lastTransaction, history; base contents compared
before/after; id allocation against both layers; a refused tpc_begin; push/pop."""
import logging
import os
import shutil
import tempfile

from ZODB import POSException
from ZODB.DemoStorage import DemoStorage
from ZODB.MappingStorage import MappingStorage
from ZODB.utils import p64, u64, z64

from . import fsharness as H


KNOWN_KEYS = set()
KNOWN_HITS = []


def fail(inp, exp, obs, cases):
    return {'found': True, 'input': inp, 'expected': exp, 'observed': obs, 'cases': cases}


def commit(st, writes, hist, serials=None):
    t = H.Txn()
    st.tpc_begin(t)
    d = {}
    for oid, data in writes:
        cur = z64
        for tid, dd in reversed(hist):
            if oid in dd:
                cur = tid
                break
        st.store(oid, cur, data, '', t)
        d[oid] = data
    st.tpc_vote(t)
    tid = st.tpc_finish(t)
    hist.append((tid, d))
    return tid


def dump(st):
    out = []
    for t in st.iterator():
        out.append((t.tid, sorted((r.oid, r.data) for r in t)))
    return out


def check_generic(st, hist, label):
    revs = H.revs_of(hist)
    tids = [t for t, _ in hist]
    probes = sorted(set([p64(1)] + tids + [p64(u64(t) + 1) for t in tids] + [b'\x7f' + b'\xff' * 7]))
    for oid in sorted(revs) + [p64(0xfffe)]:
        rl = revs.get(oid, [])
        for t in probes:
            before = [(i, r) for i, r in enumerate(rl) if r[0] < t]
            try:
                got = st.loadBefore(oid, t)
            except POSException.POSKeyError:
                got = 'POSKeyError'
            if not rl:
                exp = 'POSKeyError'
            elif not before:
                exp = None
            else:
                i, r = before[-1]
                exp = (r[1], r[0], rl[i + 1][0] if i + 1 < len(rl) else None)
            if got != exp:
                return '%s loadBefore(%s,%s)=%r expected %r' % (label, oid.hex(), t.hex(), got, exp)
        for tid, data in rl:
            try:
                got = st.loadSerial(oid, tid)
            except POSException.POSKeyError:
                got = 'POSKeyError'
            if got != data:
                return '%s loadSerial(%s,%s)=%r expected %r' % (label, oid.hex(), tid.hex(), got, data)
        if rl:
            if st.getTid(oid) != rl[-1][0]:
                return '%s getTid(%s)=%r expected %r' % (label, oid.hex(), st.getTid(oid), rl[-1][0])
            # history: the revisions of BOTH layers, newest first, cut at `size`
            for size in (1, 2, 100):
                try:
                    got = [d['tid'] for d in st.history(oid, size)]
                except Exception as e:  # noqa
                    got = '%s: %s' % (type(e).__name__, e)
                exp = [t for t, _ in reversed(rl)][:size]
                if got != exp:
                    return '%s history(%s, size=%d) tids %r expected %r' % (
                        label, oid.hex(), size, got if isinstance(got, str) else [t.hex() for t in got],
                        [t.hex() for t in exp])
    if hist and st.lastTransaction() != hist[-1][0]:
        return '%s lastTransaction()=%r expected %r' % (label, st.lastTransaction(), hist[-1][0])
    return None


def base_ahead_of_the_clock(cases):
    """LAYER_ORDER: a base whose last transaction is AHEAD of the clock (written on a machine whose
    clock ran fast, or copied with its time stamps): the first commit through the demo storage must
    still get a later tid, and untouched base objects must stay readable in a snapshot at last+1"""
    import time
    real = time.time
    for bk in ('mapping', 'file'):
        d = tempfile.mkdtemp(prefix='c16-clock-')
        try:
            base = MappingStorage() if bk == 'mapping' else H.FileStorage(os.path.join(d, 'base.fs'), create=True)
            hist = []
            time.time = lambda: real() + 86400
            try:
                commit(base, [(p64(1), b'base-object')], hist)
            finally:
                time.time = real
            demo = DemoStorage(base=base)
            commit(demo, [(p64(2), b'demo-object')], hist)
            inp = {'scenario': 'base written with the clock one day ahead, then one commit through the demo storage',
                   'base': bk}
            tids = [t for t, _ in hist]
            if not tids[1] > tids[0]:
                return fail(inp, 'tid of the demo commit later than the base\'s last tid %s' % tids[0].hex(),
                            tids[1].hex(), cases)
            r = check_generic(demo, hist, 'base ahead of the clock')
            if r:
                return fail(inp, 'changes-over-base model', r, cases)
        finally:
            shutil.rmtree(d, ignore_errors=True)
    return None


def search(func, candidate, seed, tier, obligation=''):
    logging.disable(logging.CRITICAL)
    cases = 1
    r = base_ahead_of_the_clock(cases)
    if r:
        if 'base-ahead-of-the-clock' in KNOWN_KEYS:
            KNOWN_HITS.append('base-ahead-of-the-clock')
        else:
            return r
    base_hists = [
        [[(p64(1), b'b1'), (p64(2), b'b2')], [(p64(1), b'b1x')]],
        [[(p64(1), b'only')]],
    ]
    demo_hists = [
        [[(p64(1), b'd1')], [(p64(1), b'd2')], [(p64(1), b'd3'), (p64(3), b'new')]],
        [[(p64(3), b'n1')], [(p64(2), b'd2')]],
        [],
    ]
    for bk in ('mapping', 'file'):
        for ck in ('mapping', 'file'):
            for bh in base_hists:
                for dh in demo_hists:
                    d = tempfile.mkdtemp(prefix='c16-')
                    try:
                        base = MappingStorage() if bk == 'mapping' else \
                            H.FileStorage(os.path.join(d, 'base.fs'), create=True)
                        hist = []
                        for w in bh:
                            commit(base, w, hist)
                        before = dump(base)
                        changes = MappingStorage() if ck == 'mapping' else \
                            H.FileStorage(os.path.join(d, 'changes.fs'), create=True)
                        demo = DemoStorage(base=base, changes=changes)
                        inp = {'base': bk, 'changes': ck, 'base_history': repr(bh), 'demo_history': repr(dh)}
                        cases += 1
                        r = check_generic(demo, hist, 'fresh demo')
                        if r:
                            return fail(inp, 'reads as the base', r, cases)
                        for w in dh:
                            commit(demo, w, hist)
                            cases += 1
                            r = check_generic(demo, hist, 'after %d demo commits' % (len(hist) - len(bh)))
                            if r:
                                return fail(inp, 'changes-over-base model', r, cases)
                        # stale writer is refused
                        if hist:
                            t = H.Txn()
                            demo.tpc_begin(t)
                            try:
                                demo.store(p64(1), p64(5), b'blind', '', t)
                                demo.tpc_abort(t)
                                return fail(inp, 'ConflictError for a stale serial', 'accepted', cases)
                            except POSException.ConflictError:
                                demo.tpc_abort(t)
                        # ids: never one present in either layer, never twice (also while a store is in flight)
                        present = set(H.revs_of(hist))
                        got = set()
                        t = H.Txn()
                        demo.tpc_begin(t)
                        o1 = demo.new_oid()
                        demo.store(o1, z64, b'inflight', '', t)
                        got.add(o1)
                        for _ in range(20):
                            o = demo.new_oid()
                            cases += 1
                            if o in got or o in present:
                                demo.tpc_abort(t)
                                return fail(inp, 'fresh id', 'new_oid() returned %r' % o, cases)
                            got.add(o)
                        demo.tpc_abort(t)
                        # a pack through the demo storage (to a time before everything: nothing to remove)
                        # is delegated to the changes layer, or refused with the documented TypeError
                        from ZODB.serialize import referencesf
                        cases += 1
                        try:
                            demo.pack(1.0, referencesf)
                        except TypeError as e:
                            if 'gc' not in str(e).lower() and 'garbage' not in str(e).lower():
                                return fail(inp, 'pack through the demo storage works or is refused for gc',
                                            'TypeError: %s' % e, cases)
                        except Exception as e:  # noqa
                            return fail(inp, 'pack through the demo storage works or is refused for gc',
                                        '%s: %s' % (type(e).__name__, e), cases)
                        r = check_generic(demo, hist, 'after a pack through the demo storage')
                        if r:
                            return fail(inp, 'changes-over-base model', r, cases)
                        after = dump(base)
                        if after != before:
                            return fail(inp, 'base unchanged', 'base history differs', cases)
                        # a refused begin must not block the next transaction
                        class Long(H.Txn):
                            pass
                        lt = H.Txn(user=b'u' * 70000)
                        try:
                            demo.tpc_begin(lt)
                            demo.tpc_abort(lt)
                        except Exception:
                            demo.tpc_abort(lt)
                        if not demo._commit_lock.acquire(False):
                            return fail(inp, 'commit lock free after a refused tpc_begin + tpc_abort',
                                        'still held', cases)
                        demo._commit_lock.release()
                        commit(demo, [(p64(9), b'after')], hist)
                        demo.close()
                    finally:
                        shutil.rmtree(d, ignore_errors=True)
    return {'found': False, 'cases': cases, 'known_hits': sorted(set(KNOWN_HITS))}
