"""C17 concretiser: copyTransactionsFrom / fsrecover on real storages, and fsrecover.scan on damaged
tails.  Bound: 2 source histories (with undo records, two records of one oid in one transaction, an
empty transaction); copy file->file, file->mapping-wrapped... (file and demo targets); recover of
the undamaged file; damage = every (offset, length) in a grid of 24 offsets x {1, 17, 200} bytes of
0xff, and truncation at 24 offsets; scan() on every tail of <= 16 bytes over {'.', 'x'} patterns
with a 2 s alarm (termination)."""
import itertools
import logging
import os
import shutil
import signal
import tempfile
import io

from ZODB import POSException
from ZODB.utils import p64, u64, z64

from . import fsharness as H


def fail(inp, exp, obs, cases):
    return {'found': True, 'input': inp, 'expected': exp, 'observed': obs, 'cases': cases}


class Timeout(Exception):
    pass


def with_alarm(seconds, fn):
    def h(sig, frm):
        raise Timeout()
    old = signal.signal(signal.SIGALRM, h)
    signal.alarm(seconds)
    try:
        return fn()
    finally:
        signal.alarm(0)
        signal.signal(signal.SIGALRM, old)


def build_source(d, variant):
    import base64
    path = os.path.join(d, 'src.fs')
    st = H.FileStorage(path, create=True)
    hist = []

    def commit(writes, undo=None):
        t = H.Txn(b'user', b'txn %d' % len(hist), b'')
        st.tpc_begin(t)
        for oid, data in writes:
            try:
                ser = st.getTid(oid)
            except POSException.POSKeyError:
                ser = z64
            st.store(oid, ser, data, '', t)
        for u in undo or []:
            st.undo(u, t)
        st.tpc_vote(t)
        return st.tpc_finish(t)
    commit([(p64(1), b'state-A.')])
    commit([(p64(1), b'state-B.'), (p64(2), b'other.')])
    if variant == 1:
        commit([])
        t3 = commit([(p64(1), b'state-C.')])
        ids = [x['id'] for x in st.undoLog(0, 3)]
        commit([], undo=[ids[0]])                    # undo t3 -> back pointer to state-B
        commit([(p64(1), b'state-D.')])
        ids = [x['id'] for x in st.undoLog(0, 1)]
        commit([], undo=[ids[0]])
    else:
        commit([(p64(3), b'x' * 300 + b'.')])
        commit([(p64(1), b'state-C.'), (p64(3), b'y.')])
    h = H.storage_history(st)
    meta = [(t.tid, t.status, t.user, t.description) for t in st.iterator()]
    st.close()
    return path, h, meta


def search(func, candidate, seed, tier, obligation=''):
    logging.disable(logging.CRITICAL)
    import ZODB.fsrecover as fsrecover
    cases = 0
    # ---- scan() terminates on every short tail
    for n in range(1, 13):
        for pattern in itertools.product(b'.x', repeat=min(n, 9)):
            tail = bytes(pattern) + b'x' * (n - len(pattern))
            cases += 1
            f = io.BytesIO(b'x' * 40 + tail)
            try:
                r = with_alarm(2, lambda: fsrecover.scan(f, 40))
            except Timeout:
                return fail({'scan_input': repr(b'x' * 40 + tail), 'pos': 40},
                            'scan terminates', 'no result after 2 s (loops forever)', cases)
            if not (r == 0 or r > 40):
                return fail({'scan_input': repr(tail)}, '0 or a position behind pos', repr(r), cases)
    for variant in (0, 1):
        d = tempfile.mkdtemp(prefix='c17-')
        try:
            path, hist, meta = build_source(d, variant)
            # ---- copy into another FileStorage
            src = H.FileStorage(path, read_only=True)
            dst = H.FileStorage(os.path.join(d, 'dst.fs'), create=True)
            dst.copyTransactionsFrom(src)
            cases += 1
            got = H.storage_history(dst)
            gmeta = [(t.tid, t.status, t.user, t.description) for t in dst.iterator()]
            src.close()
            dst.close()
            if got != hist or gmeta != meta:
                return fail({'source_history': variant, 'operation': 'copyTransactionsFrom file->file'},
                            'identical history', 'differs: %r vs %r' % (got[-2:], hist[-2:]), cases)
            # ---- iterator ranges of the source, and an incremental copy (first part, then the rest from tid + 1)
            from .storage_checks import check_iterator_ranges
            src = H.FileStorage(path, read_only=True)
            cases += 1
            r = check_iterator_ranges(src, hist, 'source history %d:' % variant)
            if r:
                src.close()
                return fail({'source_history': variant, 'operation': 'iterator(start, stop)'}, 'model answer', r, cases)
            for k in range(1, len(hist)):
                cases += 1
                dpath = os.path.join(d, 'inc%d.fs' % k)
                dst = H.FileStorage(dpath, create=True)
                dst.copyTransactionsFrom(src.iterator(None, hist[k - 1][0]))
                last = dst.lastTransaction()
                dst.copyTransactionsFrom(src.iterator(p64(u64(last) + 1)))
                got = H.storage_history(dst)
                dst.close()
                for ext in ('', '.index', '.tmp', '.lock'):
                    if os.path.exists(dpath + ext):
                        os.remove(dpath + ext)
                if got != hist:
                    src.close()
                    return fail({'source_history': variant, 'operation': 'copy of the first %d transactions, then of '
                                 'iterator(start=last copied tid + 1)' % k}, 'identical history (%d transactions)'
                                % len(hist), '%d transactions: tids %r' % (len(got), [t.hex() for t, _ in got]), cases)
            # ---- a partial copy into an EMPTY destination: the data_txn hint of a back-pointer record may name a
            # transaction the destination does not have; the hint is then ignored and the data written in full
            for k in range(1, len(hist)):
                cases += 1
                dpath = os.path.join(d, 'part%d.fs' % k)
                dst = H.FileStorage(dpath, create=True)
                try:
                    dst.copyTransactionsFrom(src.iterator(hist[k][0]))
                    got = H.storage_history(dst)
                except Exception as e:  # noqa
                    got = '%s: %s' % (type(e).__name__, str(e)[:120])
                dst.close()
                for ext in ('', '.index', '.tmp', '.lock'):
                    if os.path.exists(dpath + ext):
                        os.remove(dpath + ext)
                if got != hist[k:]:
                    src.close()
                    return fail({'source_history': variant, 'operation': 'copyTransactionsFrom(source.iterator(start='
                                 'tid of transaction #%d)) into an empty FileStorage' % k},
                                'the last %d transactions with identical records' % (len(hist) - k),
                                got if isinstance(got, str) else '%d transactions' % len(got), cases)
            src.close()
            # ---- recover the undamaged file
            out = os.path.join(d, 'rec.fs')
            with_alarm(20, lambda: fsrecover.recover(path, out, verbose=0, force=True))
            cases += 1
            rs = H.FileStorage(out, read_only=True)
            got = H.storage_history(rs)
            rs.close()
            if got != hist:
                return fail({'source_history': variant, 'operation': 'fsrecover on the undamaged file'},
                            'identical history (%d transactions)' % len(hist),
                            '%d transactions; last %r' % (len(got), got[-1:]), cases)
            # ---- damage
            data = open(path, 'rb').read()
            txns, end = H.parse_file(data)
            bounds = [t['pos'] for t in txns] + [end]
            offsets = sorted(set([b + k for b in bounds[:-1] for k in (0, 9, 16, 30)] +
                                 [len(data) - k for k in (1, 5, 8, 9, 20)]))[:30]
            for off in offsets:
                for ln in ((1, 17, 200) if tier == 'quick' else (1, 2, 17, 60, 200)):
                    for mode in ('overwrite', 'truncate'):
                        if mode == 'truncate' and ln != 1:
                            continue
                        cases += 1
                        dam = bytearray(data)
                        if mode == 'overwrite':
                            dam[off:off + ln] = b'\\xff' * min(ln, len(dam) - off)
                        else:
                            del dam[off:]
                        dp = os.path.join(d, 'dam.fs')
                        with open(dp, 'wb') as f:
                            f.write(dam)
                        for junk in ('rec2.fs', 'rec2.fs.index', 'rec2.fs.tmp', 'rec2.fs.lock'):
                            if os.path.exists(os.path.join(d, junk)):
                                os.remove(os.path.join(d, junk))
                        out2 = os.path.join(d, 'rec2.fs')
                        inp = {'source_history': variant, 'damage': '%s %d bytes at offset %d' % (mode, ln, off)}
                        try:
                            with_alarm(20, lambda: fsrecover.recover(dp, out2, verbose=0, force=True))
                        except Timeout:
                            return fail(inp, 'recovery terminates', 'no result after 20 s', cases)
                        except Exception as e:  # noqa
                            return fail(inp, 'recovery terminates normally', '%s: %s' % (type(e).__name__, e), cases)
                        rs = H.FileStorage(out2, read_only=True)
                        got = H.storage_history(rs)
                        rs.close()
                        for tr in os.listdir(d):
                            if '.tr' in tr:
                                os.remove(os.path.join(d, tr))
                        intact = [h for h, t in zip(hist, txns)
                                  if t['pos'] + 8 + struct_tl(data, t['pos']) <= off]
                        if got[:len(intact)] != intact:
                            return fail(inp, 'every transaction ending before the damage is recovered (%d)' % len(intact),
                                        'recovered %d; first difference at %d' % (len(got), first_diff(got, intact)), cases)
                        src_by_tid = dict(hist)
                        for tid, recs in got:
                            if tid not in src_by_tid:
                                return fail(inp, 'only transactions of the input', 'invented tid %r' % tid, cases)
                        tids = [t for t, _ in got]
                        if tids != sorted(tids):
                            return fail(inp, 'order unchanged', 'tids out of order', cases)
        finally:
            shutil.rmtree(d, ignore_errors=True)
    r = blob_copy(cases)
    if r.get('found'):
        return r
    return other_sources(r['cases'])


def other_sources(cases):
    """all source storage kinds: a MappingStorage, and a DemoStorage over one, copied into a FileStorage"""
    import transaction
    import ZODB
    from persistent.mapping import PersistentMapping
    from ZODB.DemoStorage import DemoStorage
    from ZODB.MappingStorage import MappingStorage
    for kind in ('mapping', 'demo-over-mapping'):
        d = tempfile.mkdtemp(prefix='c17m-')
        try:
            base = MappingStorage()
            db = ZODB.DB(base)
            tm = transaction.TransactionManager()
            conn = db.open(tm)
            for k in range(3):
                conn.root()['k%d' % k] = PersistentMapping({'v': k})
                tm.get().note('txn %d' % k)
                tm.get().setExtendedInfo('n', k)
                tm.commit()
            conn.close()
            src = base if kind == 'mapping' else DemoStorage(base=base)
            want = [(t.tid, t.user, t.description, dict(t.extension),
                     sorted((r.oid, r.data) for r in t)) for t in src.iterator()]
            dst = H.FileStorage(os.path.join(d, 'dst.fs'), create=True)
            cases += 1
            try:
                dst.copyTransactionsFrom(src)
                got = [(t.tid, t.user, t.description, dict(t.extension),
                        sorted((r.oid, r.data) for r in t)) for t in dst.iterator()]
            except Exception as e:  # noqa
                got = '%s: %s' % (type(e).__name__, str(e)[:160])
            dst.close()
            if got != want:
                return fail({'operation': 'copyTransactionsFrom %s -> file' % kind, 'source_history':
                             '4 transactions with description and extension'},
                            'identical history (%d transactions, ids, metadata, records)' % len(want),
                            got if isinstance(got, str) else 'differs: %d transactions' % len(got), cases)
        finally:
            shutil.rmtree(d, ignore_errors=True)
    return {'found': False, 'cases': cases}


def blob_copy(cases):
    """a history with blob revisions, an undone blob rewrite (a back-pointer record that IS a blob revision) and a redo,
    copied into another FileStorage with a blob directory: every blob revision of the source reads the same bytes"""
    import transaction
    import ZODB
    from ZODB.blob import Blob
    d = tempfile.mkdtemp(prefix='c17b-')
    try:
        st = H.FileStorage(os.path.join(d, 'src.fs'), create=True, blob_dir=os.path.join(d, 'src_blobs'))
        db = ZODB.DB(st)
        tm = transaction.TransactionManager()
        conn = db.open(tm)

        def write(text):
            with conn.root()['b'].open('w') as f:
                f.write(text)
        conn.root()['b'] = Blob()
        write(b'one')
        tm.commit()
        for text in (b'two', b'three'):
            write(text)
            tm.commit()
            db.undo(db.undoLog(0, 1)[0]['id'], tm.get())
            tm.commit()
            conn.sync()
        conn.root()['n'] = 1
        tm.commit()
        conn.close()
        db.close()
        src = H.FileStorage(os.path.join(d, 'src.fs'), read_only=True, blob_dir=os.path.join(d, 'src_blobs'))
        dst = H.FileStorage(os.path.join(d, 'dst.fs'), create=True, blob_dir=os.path.join(d, 'dst_blobs'))
        dst.copyTransactionsFrom(src)
        try:
            for t in src.iterator():
                for r in t:
                    if r.data and src.is_blob_record(r.data):
                        cases += 1
                        with open(src.loadBlob(r.oid, r.tid), 'rb') as f:
                            want = f.read()
                        try:
                            with open(dst.loadBlob(r.oid, r.tid), 'rb') as f:
                                got = f.read()
                        except Exception as e:  # noqa
                            got = '%s: %s' % (type(e).__name__, str(e)[:100])
                        if got != want:
                            return fail({'operation': 'copyTransactionsFrom file+blobs -> file+blobs',
                                         'source_history': 'blob created, rewritten, rewrite undone (twice), other commit',
                                         'blob_revision': r.tid.hex(), 'is_back_pointer_record': r.data_txn is not None},
                                        'blob bytes %r in the copy' % want, 'copy gives %r' % (got,), cases)
        finally:
            src.close()
            dst.close()
    finally:
        shutil.rmtree(d, ignore_errors=True)
    return {'found': False, 'cases': cases}


def struct_tl(data, pos):
    import struct
    return struct.unpack('>Q', data[pos + 8:pos + 16])[0]


def first_diff(a, b):
    for i, (x, y) in enumerate(zip(a, b)):
        if x != y:
            return i
    return min(len(a), len(b))
