"""C18 concretiser: real repozo backup / recover / verify on a live FileStorage data file.
Bound: option combinations {full, incremental} x {quick on/off} x {gzip on/off}; 6 backup rounds with
commits in between, one round with a voted-but-unfinished transaction, one after a pack; recover as of
every backup time stamp and compare byte for byte with the committed prefix at that backup; usable
index; verify on the intact repository and after every single-file damage (missing / truncated /
altered byte) of every repository file."""
import logging
import os
import shutil
import tempfile
import time

from ZODB.utils import p64, z64

from . import fsharness as H


class Options:
    mode = None
    file = None
    repository = None
    full = False
    date = None
    output = None
    quick = False
    gzip = False
    killold = False
    withverify = False
    VERBOSE = False


def fail(inp, exp, obs, cases):
    return {'found': True, 'input': inp, 'expected': exp, 'observed': obs, 'cases': cases}


def search(func, candidate, seed, tier, obligation=''):
    logging.disable(logging.CRITICAL)
    from ZODB.scripts import repozo
    repozo.VERBOSE = False
    cases = 0
    for quick in (False, True):
        for gz in (False, True):
            d = tempfile.mkdtemp(prefix='c18-')
            try:
                path = os.path.join(d, 'Data.fs')
                repo = os.path.join(d, 'repo')
                os.mkdir(repo)
                st = H.FileStorage(path, create=True)
                n = [0]

                def commit(k):
                    t = H.Txn()
                    st.tpc_begin(t)
                    for i in range(k):
                        n[0] += 1
                        oid = p64(i + 1)        # distinct oids within one transaction
                        try:
                            ser = st.getTid(oid)
                        except Exception:
                            ser = z64
                        st.store(oid, ser, (b'%d-' % n[0]) * 37, '', t)
                    st.tpc_vote(t)
                    st.tpc_finish(t)
                snapshots = []      # (stamp, committed prefix bytes)
                stamp0 = (2025, 1, 1, 10, 0, 0)
                inp_base = {'quick': quick, 'gzip': gz}
                for rnd in range(6):
                    commit(2 + rnd)
                    inflight = None
                    if rnd == 2:
                        # a backup taken while a transaction is voted but not finished
                        inflight = H.Txn()
                        st.tpc_begin(inflight)
                        st.store(p64(9), z64, b'in flight' * 20, '', inflight)
                        st.tpc_vote(inflight)
                    if rnd == 4:
                        time.sleep(0.01)
                        st.pack(time.time(), lambda data: [], gc=False)
                    st._file.flush()
                    committed = open(path, 'rb').read()[:st._pos]
                    o = Options()
                    o.mode = 'backup'
                    o.file, o.repository, o.quick, o.gzip = path, repo, quick, gz
                    o.full = (rnd == 0)
                    stamp = stamp0[:5] + (rnd * 7,)
                    o.test_now = stamp
                    cases += 1
                    repozo.do_backup(o)
                    if inflight is not None:
                        st.tpc_abort(inflight)
                    snapshots.append(('%04d-%02d-%02d-%02d-%02d-%02d' % stamp, committed))
                    # recover as of every backup so far
                    for date, want in snapshots:
                        # only states the repository still holds: a later FULL backup does not remove them
                        r = Options()
                        r.mode = 'recover'
                        r.repository, r.date = repo, date
                        r.output = os.path.join(d, 'recovered.fs')
                        r.withverify = (rnd % 2 == 0)
                        cases += 1
                        for junk in ('recovered.fs', 'recovered.fs.index'):
                            if os.path.exists(os.path.join(d, junk)):
                                os.remove(os.path.join(d, junk))
                        try:
                            repozo.do_recover(r)
                        except Exception as e:  # noqa
                            return fail(dict(inp_base, round=rnd, recover_date=date), 'recover succeeds',
                                        '%s: %s' % (type(e).__name__, e), cases)
                        got = open(r.output, 'rb').read()
                        if got != want:
                            txns, end = H.parse_file(got)
                            return fail(dict(inp_base, round=rnd, recover_date=date),
                                        'byte-identical to the committed prefix at that backup (%d bytes)' % len(want),
                                        '%d bytes; last transaction status %r' % (
                                            len(got), got[-(len(got) - (txns[-1]['pos'] if txns else 0)):][16:17]
                                            if len(got) > len(want) else 'n/a'), cases)
                        if date == snapshots[-1][0]:
                            if not os.path.exists(r.output + '.index'):
                                return fail(dict(inp_base, round=rnd, recover_date=date),
                                            'index restored next to the recovered file', 'no index file', cases)
                            rs = H.FileStorage(r.output, read_only=True)
                            used = getattr(rs, '_used_index', None)
                            rs.close()
                            if not used:
                                return fail(dict(inp_base, round=rnd, recover_date=date),
                                            'restored index is usable', 'index was ignored on open', cases)
                st.close()
                # verify: intact, then every single-file damage
                v = Options()
                v.mode = 'verify'
                v.repository, v.quick = repo, False
                cases += 1
                try:
                    repozo.do_verify(v)
                except Exception as e:  # noqa
                    return fail(dict(inp_base, verify='intact repository'), 'verification succeeds',
                                '%s: %s' % (type(e).__name__, e), cases)
                needed = repozo.find_files(v)
                for f in needed:
                    orig = open(f, 'rb').read()
                    for damage in ('missing', 'truncated', 'altered'):
                        for vq in (False, True):
                            if damage == 'altered' and (vq or f.endswith('z')):
                                continue    # quick verification checks sizes only; gz damage may not decode
                            nfull = len([x for x in os.listdir(repo) if x.endswith(('.fs', '.fsz'))])
                            if damage == 'missing' and f.endswith(('.fs', '.fsz')) and nfull > 1:
                                continue    # an older full backup chain then becomes the verified one
                            cases += 1
                            if damage == 'missing':
                                os.remove(f)
                            elif damage == 'truncated':
                                open(f, 'wb').write(orig[:-3])
                            else:
                                b = bytearray(orig)
                                b[len(b) // 2] ^= 0x55
                                open(f, 'wb').write(bytes(b))
                            v.quick = vq
                            try:
                                repozo.do_verify(v)
                                ok = True
                            except repozo.VerificationFail:
                                ok = False
                            except Exception:  # noqa
                                ok = False
                            open(f, 'wb').write(orig)
                            if ok:
                                return fail(dict(inp_base, damage='%s %s' % (damage, os.path.basename(f)),
                                                 quick_verify=vq), 'verification fails', 'verification passed', cases)
            finally:
                shutil.rmtree(d, ignore_errors=True)
    return {'found': False, 'cases': cases}
