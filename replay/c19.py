"""C19 concretiser (family V, value functions): small-scope exhaustive comparison of the real
fsIndex against a sorted-dict oracle, seeded by the solver's candidate when there is one.
Scope: prefixes {0,1,2,2^48-1} x suffixes {0,1,0xffff} (12 keys), every index content with at
most 3 keys (299 contents), every query key of the scope and None."""
import itertools
import os
import random
import struct
import tempfile

from ZODB.fsIndex import fsIndex

PREFIXES = [0, 1, 2, 2 ** 48 - 1]
SUFFIXES = [0, 1, 0xffff]
VALUES = [0, 1, 2 ** 48 - 1]


def k8(p, s):
    return struct.pack('>Q', p * 65536 + s)


KEYS = [k8(p, s) for p in PREFIXES for s in SUFFIXES]


def contents(max_size=3):
    for n in range(max_size + 1):
        for combo in itertools.combinations(range(len(KEYS)), n):
            yield {KEYS[i]: (7 * i + 3) for i in combo}


def build(d):
    idx = fsIndex()
    for k, v in d.items():
        idx[k] = v
    return idx


def wf(idx):
    """representation invariant: no empty bucket, 6-byte prefixes, 2-byte suffixes"""
    for p, b in idx._data.items():
        if len(p) != 6 or len(b) == 0:
            return False
        for s, v in b.items():
            if len(s) != 2 or len(v) != 6:
                return False
    return True


def view(idx):
    out = {}
    for p, b in idx._data.items():
        for s, v in b.items():
            out[p + s] = struct.unpack('>Q', b'\0\0' + v)[0]
    return out


def outcome(fn):
    try:
        return ('ok', fn())
    except Exception as e:  # noqa
        return ('raise', type(e).__name__)


def o_min(d, key):
    c = [k for k in d if key is None or k >= key]
    if not c:
        return ('raise', 'ValueError')
    return ('ok', min(c))


def o_max(d, key):
    c = [k for k in d if key is None or k <= key]
    if not c:
        return ('raise', 'ValueError')
    return ('ok', max(c))


def fail(inp, exp, obs, cases):
    return {'found': True, 'input': inp, 'expected': repr(exp), 'observed': repr(obs),
            'cases': cases}


def hexd(d):
    return {k.hex(): v for k, v in d.items()}


def check_query(name, d, key):
    idx = build(d)
    if name == 'minKey':
        exp, obs = o_min(d, key), outcome(lambda: idx.minKey(key) if key is not None else idx.minKey())
    elif name == 'maxKey':
        exp, obs = o_max(d, key), outcome(lambda: idx.maxKey(key) if key is not None else idx.maxKey())
    elif name == '__getitem__':
        exp = ('ok', d[key]) if key in d else ('raise', 'KeyError')
        obs = outcome(lambda: idx[key])
    elif name == 'get':
        exp = ('ok', d.get(key, 'DEF'))
        obs = outcome(lambda: idx.get(key, 'DEF'))
    elif name == '__contains__':
        exp, obs = ('ok', key in d), outcome(lambda: key in idx)
    elif name == 'has_key':
        exp, obs = ('ok', key in d), outcome(lambda: idx.has_key(key))
    else:
        return None
    if exp != obs or view(idx) != d:
        return (exp, obs)
    return None


def check_mut(name, d, key, val):
    idx = build(d)
    exp_d = dict(d)
    if name == '__setitem__':
        exp_d[key] = val
        exp = ('ok', None)
        obs = outcome(lambda: idx.__setitem__(key, val))
    elif name == '__delitem__':
        if key in exp_d:
            del exp_d[key]
            exp = ('ok', None)
        else:
            exp = ('raise', 'KeyError')
        obs = outcome(lambda: idx.__delitem__(key))
    elif name == 'clear':
        exp_d = {}
        exp = ('ok', None)
        obs = outcome(lambda: idx.clear())
    else:
        return None
    got = view(idx)
    if exp != obs or got != exp_d or not wf(idx):
        return ((exp, hexd(exp_d), 'well-formed'), (obs, hexd(got), 'well-formed' if wf(idx) else 'EMPTY-BUCKET'))
    # follow-up queries must still agree (an empty bucket shows up in minKey/maxKey)
    for q in [None] + KEYS:
        for nm in ('minKey', 'maxKey'):
            o = o_min(exp_d, q) if nm == 'minKey' else o_max(exp_d, q)
            r = outcome(lambda: getattr(idx, nm)(q) if q is not None else getattr(idx, nm)())
            if o != r and KNOWN_OK(nm, exp_d, q):
                return ((nm, q.hex() if q else None, o), (nm, q.hex() if q else None, r))
    return None


def KNOWN_OK(nm, d, q):
    """follow-up queries are only judged where minKey/maxKey themselves agree with the oracle
    on a freshly built index of the same content (so a failure is attributed to the mutator)"""
    idx = build(d)
    o = o_min(d, q) if nm == 'minKey' else o_max(d, q)
    r = outcome(lambda: getattr(idx, nm)(q) if q is not None else getattr(idx, nm)())
    return o == r


def check_bulk(d, tmpdir):
    """bounded stand-in for the functions not under deductive contract:
    __len__, __iter__/keys, items, values, iteritems, itervalues, update, save/load,
    __getstate__/__setstate__"""
    idx = build(d)
    sk = sorted(d)
    checks = [
        ('__len__', len(idx), len(d)),
        ('keys', list(idx.keys()), sk),
        ('__iter__', list(iter(idx)), sk),
        ('items', list(idx.items()), [(k, d[k]) for k in sk]),
        ('values', list(idx.values()), [d[k] for k in sk]),
        ('iteritems', list(idx.iteritems()), [(k, d[k]) for k in sk]),
        ('itervalues', list(idx.itervalues()), [d[k] for k in sk]),
    ]
    for nm, got, exp in checks:
        if got != exp:
            return (nm, exp, got)
    i2 = fsIndex()
    i2.update(d)
    if view(i2) != d or not wf(i2):
        return ('update', hexd(d), hexd(view(i2)))
    i3 = fsIndex(d)
    if view(i3) != d:
        return ('__init__(data)', hexd(d), hexd(view(i3)))
    for pos in (0, 4, 2 ** 40 + 5):
        fn = os.path.join(tmpdir, 'idx')
        idx.save(pos, fn)
        info = fsIndex.load(fn)
        if info.get('pos') != pos or view(info['index']) != d or not wf(info['index']):
            return ('save/load', (pos, hexd(d)), (info.get('pos'), hexd(view(info['index']))))
        j = info['index']
        # the loaded index must behave as an independent ordered map
        if d:
            j[KEYS[5]] = 99
            e = dict(d)
            e[KEYS[5]] = 99
            if view(j) != e or len(j) != len(e):
                return ('save/load then insert', hexd(e), (hexd(view(j)), len(j)))
    st = idx.__getstate__()
    i4 = fsIndex.__new__(fsIndex)
    i4.__setstate__(st)
    if view(i4) != d:
        return ('getstate/setstate', hexd(d), hexd(view(i4)))
    return None


def candidate_contents(cand):
    """index contents suggested by the solver model: every integer value in the model is tried
    as a prefix / suffix; kept small"""
    if not cand:
        return []
    nums = set()
    for v in cand.values():
        try:
            nums.add(int(str(v)))
        except ValueError:
            pass
    ps = sorted(n for n in nums if 0 <= n < 2 ** 48)[:6]
    ss = sorted(n for n in nums if 0 <= n < 65536)[:6]
    keys = [k8(p, s) for p in ps for s in ss][:16]
    out = []
    for n in (1, 2):
        for combo in itertools.combinations(keys, n):
            out.append(({k: 5 + i for i, k in enumerate(combo)}, keys))
    return out[:400]


def search(func, candidate, seed, tier, obligation=''):
    name = func.split('.')[-1]
    cases = 0
    if name in ('minKey', 'maxKey', '__getitem__', 'get', '__contains__', 'has_key'):
        for d, keys in candidate_contents(candidate):
            for q in keys + ([None] if name in ('minKey', 'maxKey') else []):
                cases += 1
                r = check_query(name, d, q)
                if r:
                    return fail({'index': hexd(d), 'key': q.hex() if q else None, 'op': name,
                                 'from': 'solver-candidate'}, r[0], r[1], cases)
        for d in contents():
            for q in KEYS + ([None] if name in ('minKey', 'maxKey') else []):
                cases += 1
                r = check_query(name, d, q)
                if r:
                    return fail({'index': hexd(d), 'key': q.hex() if q else None, 'op': name},
                                r[0], r[1], cases)
        return {'found': False, 'cases': cases}
    if name in ('__setitem__', '__delitem__', 'clear'):
        for d in contents():
            for q in (KEYS if name != 'clear' else [None]):
                for val in (VALUES if name == '__setitem__' else [None]):
                    cases += 1
                    r = check_mut(name, d, q, val)
                    if r:
                        return fail({'index': hexd(d), 'key': q.hex() if q else None,
                                     'value': val, 'op': name}, r[0], r[1], cases)
        return {'found': False, 'cases': cases}
    # bounded stand-in sweep (bulk operations + random operation sequences)
    tmp = tempfile.mkdtemp(prefix='c19-')
    try:
        for d in contents(3 if tier == 'quick' else 4):
            cases += 1
            r = check_bulk(d, tmp)
            if r:
                return fail({'index': hexd(d), 'op': r[0]}, r[1], r[2], cases)
        rnd = random.Random(seed)
        for _ in range(300 if tier == 'quick' else 3000):
            idx, d = fsIndex(), {}
            ops = []
            for _ in range(12):
                op = rnd.choice(['set', 'set', 'del', 'clear', 'min', 'max'])
                k = rnd.choice(KEYS)
                ops.append((op, k.hex()))
                if op == 'set':
                    v = rnd.choice(VALUES)
                    idx[k] = v
                    d[k] = v
                elif op == 'del':
                    e = ('ok', None) if k in d else ('raise', 'KeyError')
                    d.pop(k, None)
                    if outcome(lambda: idx.__delitem__(k)) != e:
                        return fail({'ops': ops}, e, 'different outcome', cases)
                elif op == 'clear':
                    if rnd.random() < 0.2:
                        idx.clear()
                        d = {}
                else:
                    o = o_min(d, k) if op == 'min' else o_max(d, k)
                    if KNOWN_OK('minKey' if op == 'min' else 'maxKey', d, k):
                        r = outcome(lambda: (idx.minKey if op == 'min' else idx.maxKey)(k))
                        if r != o:
                            return fail({'ops': ops}, o, r, cases)
                cases += 1
                if view(idx) != d or len(idx) != len(d) or not wf(idx):
                    return fail({'ops': ops}, hexd(d), hexd(view(idx)), cases)
        return {'found': False, 'cases': cases}
    finally:
        import shutil
        shutil.rmtree(tmp, ignore_errors=True)
