"""Concrete harness over the REAL FileStorage (family S / K concretisers of DESIGN 7.3):
deterministic histories through the public 2PC API, a recording/fault-injecting raw file layer,
crash-image enumeration, and a reference model of the committed history.

Used (a) to replay refuted obligations natively and (b) as the labelled bounded stand-in."""
import io
import itertools
import os
import random
import shutil
import struct
import sys
import tempfile

import ZODB.FileStorage.FileStorage  # noqa  (module object fetched through sys.modules below)
from ZODB.utils import p64, u64, z64
from ZODB import POSException

FSMOD = sys.modules['ZODB.FileStorage.FileStorage']
FileStorage = FSMOD.FileStorage


class Txn:
    """minimal transaction object for the storage API"""

    def __init__(self, user=b'', description=b'', ext=b''):
        self.user = user
        self.description = description
        self.extension_bytes = ext
        self.extension = {}


def tid_of(n):
    # deterministic, increasing, plausible time stamps (top byte 0x03)
    return p64(0x0300000000000000 + n * 0x10000)


class Recorder:
    """records the raw (OS level) effects on files whose name ends with one of `suffixes`"""

    def __init__(self):
        self.log = []          # ('write', path, offset, bytes) / ('truncate', path, n) / ('fsync', path) / ('mark', label)
        self.fail_at = None    # (op index among raw writes/flushes) -> raise OSError once
        self.raw_count = 0
        self.fd_path = {}

    def mark(self, label):
        self.log.append(('mark', label))


def make_raw_class(rec, path):
    class RecRaw(io.FileIO):
        def write(self, b):
            b = bytes(b)
            rec.raw_count += 1
            if rec.fail_at is not None and rec.raw_count == rec.fail_at[0]:
                k = min(rec.fail_at[1], len(b))
                if k:
                    off = self.tell()
                    io.FileIO.write(self, b[:k])
                    rec.log.append(('write', path, off, b[:k]))
                rec.log.append(('mark', 'fault'))
                raise OSError(28, 'injected: no space left on device')
            off = self.tell()
            n = io.FileIO.write(self, b)
            rec.log.append(('write', path, off, b[:n]))
            return n

        def truncate(self, size=None):
            if size is None:
                size = self.tell()
            rec.log.append(('truncate', path, size))
            return io.FileIO.truncate(self, size)
    return RecRaw


class Patched:
    """context manager: rebinds open/fsync in the FileStorage module to the recording layer"""

    def __init__(self, rec, datafile):
        self.rec = rec
        self.datafile = os.path.abspath(datafile)

    def __enter__(self):
        rec, datafile = self.rec, self.datafile
        self.orig_open = FSMOD.__dict__.get('open')
        self.orig_fsync = FSMOD.fsync

        def my_open(name, mode='r', *a, **kw):
            if isinstance(name, str) and os.path.abspath(name) == datafile and 'b' in mode \
                    and ('+' in mode or 'w' in mode):
                raw = make_raw_class(rec, datafile)(name, mode.replace('b', ''))
                rec.fd_path[raw.fileno()] = datafile
                return io.BufferedRandom(raw)
            return open(name, mode, *a, **kw)

        def my_fsync(fd):
            if fd in rec.fd_path:
                rec.log.append(('fsync', rec.fd_path[fd]))
            return os.fsync(fd)
        FSMOD.open = my_open
        FSMOD.fsync = my_fsync
        return self

    def __exit__(self, *exc):
        if self.orig_open is None:
            FSMOD.__dict__.pop('open', None)
        else:
            FSMOD.open = self.orig_open
        FSMOD.fsync = self.orig_fsync


# --------------------------------------------------------------------------------------
# reference parser of the file format (spec side: written from format.py's header comment)
# --------------------------------------------------------------------------------------

def parse_file(data):
    """-> (transactions, end) : every complete, non-checkpoint transaction in order;
    stops at the first boundary whose tail is ignorable.  transaction = dict(tid, status, user,
    descr, ext, records=[dict(oid, tid, prev, tloc, data|None, back)], pos)"""
    out = []
    if len(data) < 4:
        return out, 4
    pos = 4
    while True:
        if len(data) - pos < 23:
            break
        tid, tl, status, ul, dl, el = struct.unpack('>8sQcHHH', data[pos:pos + 23])
        if status == b'c' or pos + tl + 8 > len(data):
            break
        if tl < 23 + ul + dl + el:
            raise ValueError('bad transaction length at %d' % pos)
        if struct.unpack('>Q', data[pos + tl:pos + tl + 8])[0] != tl:
            raise ValueError('redundant length mismatch at %d' % pos)
        p = pos + 23
        user, descr, ext = data[p:p + ul], data[p + ul:p + ul + dl], data[p + ul + dl:p + ul + dl + el]
        p += ul + dl + el
        recs = []
        while p < pos + tl:
            oid, rtid, prev, tloc, vlen, plen = struct.unpack('>8s8sQQHQ', data[p:p + 42])
            if vlen or tloc != pos or rtid != tid:
                raise ValueError('bad record at %d' % p)
            if plen:
                recs.append(dict(oid=oid, tid=rtid, prev=prev, pos=p, data=data[p + 42:p + 42 + plen],
                                 back=None))
                p += 42 + plen
            else:
                back = struct.unpack('>Q', data[p + 42:p + 50])[0]
                recs.append(dict(oid=oid, tid=rtid, prev=prev, pos=p, data=None, back=back))
                p += 50
        if p != pos + tl:
            raise ValueError('records do not add up at %d' % pos)
        out.append(dict(tid=tid, status=status, user=user, descr=descr, ext=ext, records=recs,
                        pos=pos))
        pos += tl + 8
    return out, pos


def resolve_data(data, txns):
    """map record position -> payload with back pointers followed (None = un-created)"""
    bypos = {}
    for t in txns:
        for r in t['records']:
            bypos[r['pos']] = r
    memo = {}

    def get(p):
        if p in memo:
            return memo[p]
        r = bypos[p]
        if r['data'] is not None:
            v = r['data']
        elif r['back'] == 0:
            v = None
        else:
            v = get(r['back'])
        memo[p] = v
        return v
    return {p: get(p) for p in bypos}


def history_of(txns):
    """abstract history: [(tid, {oid: data-or-None})] with the LAST record per oid per txn"""
    data = resolve_data(None, txns)
    out = []
    for t in txns:
        d = {}
        for r in t['records']:
            d[r['oid']] = data[r['pos']]
        out.append((t['tid'], d))
    return out


def storage_history(st):
    """the same abstract history as reported by the real storage's iterator"""
    out = []
    it = st.iterator()
    try:
        for t in it:
            d = {}
            for r in t:
                d[r.oid] = r.data
            out.append((t.tid, d))
    finally:
        close = getattr(it, 'close', None)
        if close:
            close()
    return out


def revs_of(hist):
    revs = {}
    for tid, d in hist:
        for oid, data in d.items():
            revs.setdefault(oid, []).append((tid, data))
    return revs


def check_queries(st, hist, label=''):
    """C04: every revision query against the abstract history. -> None or failure description"""
    revs = revs_of(hist)
    last = hist[-1][0] if hist else z64
    if st.lastTransaction() != last:
        return '%s lastTransaction()=%r expected %r' % (label, st.lastTransaction(), last)
    tids = [t for t, _ in hist]
    probes = sorted(set([z64, p64(1)] + tids + [p64(u64(t) + 1) for t in tids] +
                        [p64(u64(t) - 1) for t in tids if u64(t) > 0] + [b'\x7f' + b'\xff' * 7]))
    all_oids = sorted(revs) + [p64(0xfffe)]
    for oid in all_oids:
        rl = revs.get(oid, [])
        # load / getTid
        cur = rl[-1] if rl else None
        try:
            got = st.load(oid, '')
        except POSException.POSKeyError:
            got = 'POSKeyError'
        exp = 'POSKeyError' if (cur is None or cur[1] is None) else (cur[1], cur[0])
        if got != exp:
            return '%s load(%s)=%r expected %r' % (label, oid.hex(), got, exp)
        try:
            got = st.getTid(oid)
        except POSException.POSKeyError:
            got = 'POSKeyError'
        exp = 'POSKeyError' if (cur is None or cur[1] is None) else cur[0]
        if got != exp:
            return '%s getTid(%s)=%r expected %r' % (label, oid.hex(), got, exp)
        for t in probes:
            before = [(i, r) for i, r in enumerate(rl) if r[0] < t]
            try:
                got = st.loadBefore(oid, t)
            except POSException.POSKeyError:
                got = 'POSKeyError'
            if not rl:
                exp = 'POSKeyError'
            elif not before:
                exp = None
            else:
                i, r = before[-1]
                if r[1] is None:
                    exp = 'POSKeyError'
                else:
                    exp = (r[1], r[0], rl[i + 1][0] if i + 1 < len(rl) else None)
            if got != exp:
                return '%s loadBefore(%s,%s)=%r expected %r' % (label, oid.hex(), t.hex(), got, exp)
        for (tid, data) in rl:
            try:
                got = st.loadSerial(oid, tid)
            except POSException.POSKeyError:
                got = 'POSKeyError'
            exp = 'POSKeyError' if data is None else data
            if got != exp:
                return '%s loadSerial(%s,%s)=%r expected %r' % (label, oid.hex(), tid.hex(), got, exp)
        # a transaction that exists but did not write the object has no revision of it
        for tid in tids:
            if all(tid != t for t, _ in rl):
                try:
                    got = st.loadSerial(oid, tid)
                except POSException.POSKeyError:
                    got = 'POSKeyError'
                if got != 'POSKeyError':
                    return '%s loadSerial(%s,%s)=%r expected POSKeyError (that transaction did not write the object)' % (
                        label, oid.hex(), tid.hex(), got)
        if rl:
            h = st.history(oid, size=100)
            got = [d['tid'] for d in h]
            exp = [t for t, _ in reversed(rl)]
            if rl[-1][1] is not None and got != exp:
                return '%s history(%s) tids %r expected %r' % (label, oid.hex(), got, exp)
    got = storage_history(st)
    if got != hist:
        return '%s iterator() history differs: %r expected %r' % (label, got[-2:], hist[-2:])
    return None


# --------------------------------------------------------------------------------------
# operation programs
# --------------------------------------------------------------------------------------

class World:
    """a FileStorage in a temp dir, driven by a small operation language, with a model"""

    def __init__(self, record=True, quota=None, blob_dir=False):
        self.dir = tempfile.mkdtemp(prefix='fsh-')
        self.path = os.path.join(self.dir, 'Data.fs')
        self.rec = Recorder()
        self.patch = Patched(self.rec, self.path) if record else None
        if self.patch:
            self.patch.__enter__()
        kw = {}
        if blob_dir:
            kw['blob_dir'] = os.path.join(self.dir, 'blobs')
        self.st = FileStorage(self.path, create=True, quota=quota, **kw)
        self.hist = []          # committed abstract history
        self.n = 0
        self.returned = []      # (log index at which tpc_finish returned, len(hist))

    def close(self):
        try:
            self.st.close()
        except Exception:
            pass
        if self.patch:
            self.patch.__exit__()
        shutil.rmtree(self.dir, ignore_errors=True)

    def current_serial(self, oid):
        for tid, d in reversed(self.hist):
            if oid in d:
                return tid if d[oid] is not None else z64
        return z64

    def commit(self, writes, meta=(b'', b'', b''), stop_after=None, explicit_tid=True):
        """writes: [(oid, data)].  stop_after: 'begin' | 'store' | 'vote' -> abort there.
        returns 'committed' / 'aborted'"""
        self.n += 1
        t = Txn(*meta)
        tid = tid_of(self.n) if explicit_tid else None
        st = self.st
        st.tpc_begin(t, tid)
        if stop_after == 'begin':
            st.tpc_abort(t)
            return 'aborted'
        d = {}
        for oid, data in writes:
            st.store(oid, self.current_serial(oid), data, '', t)
            d[oid] = data
        if stop_after == 'store':
            st.tpc_abort(t)
            return 'aborted'
        st.tpc_vote(t)
        self.rec.mark('voted')
        if stop_after == 'vote':
            st.tpc_abort(t)
            return 'aborted'
        rtid = st.tpc_finish(t)
        self.hist.append((rtid, d))
        self.rec.mark('finished')
        self.returned.append((len(self.rec.log), len(self.hist)))
        return 'committed'


def crash_images(log, path, base=b'', max_cuts_per_write=40):
    """yield (label, image bytes, log index) for every prefix of the raw effect sequence on
    `path`, including torn cuts of each write"""
    img = bytearray(base)
    yield ('start', bytes(img), 0)
    for i, ev in enumerate(log):
        if ev[0] == 'write' and ev[1] == path:
            off, b = ev[2], ev[3]
            cuts = list(range(1, len(b)))
            if len(cuts) > max_cuts_per_write:
                keep = set(cuts[:26]) | set(cuts[-8:]) | set(cuts[::max(1, len(cuts) // 8)])
                cuts = sorted(keep)
            for k in cuts:
                im = bytearray(img)
                if len(im) < off:
                    im.extend(b'\0' * (off - len(im)))
                im[off:off + k] = b[:k]
                yield ('op%d torn %d/%d' % (i, k, len(b)), bytes(im), i)
            if len(img) < off:
                img.extend(b'\0' * (off - len(img)))
            img[off:off + len(b)] = b
            yield ('op%d write done' % i, bytes(img), i + 1)
        elif ev[0] == 'truncate' and ev[1] == path:
            del img[ev[2]:]
            yield ('op%d truncate' % i, bytes(img), i + 1)


def reopen_image(image, read_only=False):
    """open a crash image with the real FileStorage; -> (history, error)"""
    d = tempfile.mkdtemp(prefix='fsh-img-')
    try:
        p = os.path.join(d, 'Data.fs')
        with open(p, 'wb') as f:
            f.write(image)
        try:
            st = FileStorage(p, read_only=read_only)
        except Exception as e:  # noqa
            return None, '%s: %s' % (type(e).__name__, e), None
        try:
            h = storage_history(st)
            last = st.lastTransaction()
            return h, None, last
        finally:
            st.close()
    finally:
        shutil.rmtree(d, ignore_errors=True)


def durable_points(log, path):
    """log indexes of fsync events of `path`"""
    return [i for i, ev in enumerate(log) if ev[0] == 'fsync' and ev[1] == path]
