"""Replay runner: executed with /venv/bin/python, PYTHONPATH=<repo>/src:/verif.
Reads a request {property, func, obligation, candidate, seed, tier}; imports the per-property
concretiser module replay.<prop lower> and calls search(); writes the result JSON.
A result with found=true carries a concrete input on which the REAL function violates the
executable form of its postcondition."""
import importlib
import json
import sys
import traceback


def main():
    req = json.load(open(sys.argv[1]))
    out = {'found': False}
    try:
        m = importlib.import_module('replay.' + req['property'].lower())
        if hasattr(m, 'KNOWN_KEYS'):
            m.KNOWN_KEYS = set(req.get('known_keys') or [])
        out = m.search(req['func'], req.get('candidate'), int(req.get('seed') or 0),
                       req.get('tier') or 'quick', req.get('obligation') or '') or {'found': False}
    except Exception:
        out = {'found': False, 'error': traceback.format_exc()[-3000:]}
    with open(sys.argv[2], 'w') as f:
        json.dump(out, f, default=repr)


if __name__ == '__main__':
    main()
