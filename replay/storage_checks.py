"""Bounded checks of the real storages shared by the C03/C04/C05/C20 concretisers."""
import os
import random
import shutil
import tempfile

from ZODB import POSException
from ZODB.utils import p64, u64, z64

from . import fsharness as H


def fail(inp, exp, obs, cases):
    return {'found': True, 'input': inp, 'expected': exp, 'observed': obs, 'cases': cases}


# ---------------------------------------------------------------------------- C04
def histories(seed, n, tier):
    rnd = random.Random(seed)
    oids = [p64(i) for i in (1, 2, 3, 0x10000, 0x10001)]
    sizes = [1, 2, 50, 300]
    out = [
        [[(p64(1), b'a')], [(p64(1), b'b')], [(p64(2), b'c')], [(p64(1), b'd'), (p64(2), b'e')]],
        [[(p64(1), b'a'), (p64(1), b'aa')], [(p64(1), b'b')]],
    ]
    for _ in range(n):
        h = []
        for _ in range(rnd.randint(1, 5)):
            h.append([(rnd.choice(oids), bytes([rnd.randint(65, 90)]) * rnd.choice(sizes))
                      for _ in range(rnd.randint(1, 3))])
        out.append(h)
    return out


def check_iterator_ranges(st, hist, label):
    """iterator(start, stop) for every pair of tid boundaries against the model"""
    tids = [t for t, _ in hist]
    probes = [None] + sorted(set(tids + [p64(u64(t) + 1) for t in tids] +
                                 [p64(u64(t) - 1) for t in tids if u64(t) > 1]))
    for start in probes:
        for stop in probes:
            exp = [t for t in tids if (start is None or t >= start) and (stop is None or t <= stop)]
            try:
                it = st.iterator(start, stop)
                try:
                    got = [t.tid for t in it]
                finally:
                    c = getattr(it, 'close', None)
                    if c:
                        c()
            except Exception as e:  # noqa
                got = '%s: %s' % (type(e).__name__, str(e)[:120])
            if got != exp:
                return '%s iterator(start=%s, stop=%s) = %r expected %r' % (
                    label, start.hex() if start else None, stop.hex() if stop else None,
                    got if isinstance(got, str) else [t.hex() for t in got], [t.hex() for t in exp])
    return None


def check_c04(seed, tier):
    cases = 0
    for hi, hist in enumerate(histories(seed, 6 if tier == 'quick' else 40, tier)):
        w = H.World(record=False)
        try:
            for writes in hist:
                meta = (b'u' * (cases % 3), b'desc', b'')
                w.commit(writes, meta=meta)
                cases += 1
                r = H.check_queries(w.st, w.hist, 'history#%d' % hi)
                if r:
                    return fail({'history': repr(hist), 'after': len(w.hist)}, 'model answer', r, cases)
            # iterator ranges - also while a transaction is voted but not finished (its bytes are in
            # the file but it is not committed: the answers are those of the committed history)
            r = check_iterator_ranges(w.st, w.hist, 'history#%d' % hi)
            if r:
                return fail({'history': repr(hist)}, 'model answer', r, cases)
            t = H.Txn()
            w.st.tpc_begin(t)
            w.st.store(p64(1), w.st.getTid(p64(1)) if any(p64(1) in d for _, d in w.hist) else z64,
                       b'in-flight', '', t)
            w.st.tpc_vote(t)
            try:
                cases += 1
                r = check_iterator_ranges(w.st, w.hist, 'transaction voted but unfinished, history#%d' % hi)
            finally:
                w.st.tpc_abort(t)
            if r:
                return fail({'history': repr(hist), 'in_flight': 'tpc_begin; store; tpc_vote'},
                            'model answer', r, cases)
            # aborted transaction in between leaves answers unchanged
            w.commit([(p64(1), b'zzz')], stop_after='vote')
            r = H.check_queries(w.st, w.hist, 'after-abort history#%d' % hi)
            if r:
                return fail({'history': repr(hist)}, 'model answer', r, cases)
            # close / reopen (with index, then without index)
            model = list(w.hist)
            w.st.close()
            # a torn tail (crash during a vote) seen through a READ-ONLY open, which must not cut it off
            torn_dir = tempfile.mkdtemp(prefix='c04-torn-')
            try:
                cases += 1
                tp = os.path.join(torn_dir, 'Data.fs')
                shutil.copy(w.path, tp)
                with open(tp, 'ab') as f:
                    f.write(b'\x03\xff' + b'torn vote' * 3)
                st = H.FileStorage(tp, read_only=True)
                try:
                    r = check_iterator_ranges(st, model, 'read-only open of a file with a torn tail, history#%d' % hi)
                finally:
                    st.close()
                if r:
                    return fail({'history': repr(hist), 'tail': '29 stray bytes appended, opened read_only=True'},
                                'model answer', r, cases)
            finally:
                shutil.rmtree(torn_dir, ignore_errors=True)
            for drop_index in (False, True):
                if drop_index and os.path.exists(w.path + '.index'):
                    os.remove(w.path + '.index')
                st = H.FileStorage(w.path)
                try:
                    cases += 1
                    r = H.check_queries(st, model, 'reopen(drop_index=%s) history#%d' % (drop_index, hi))
                    if r:
                        return fail({'history': repr(hist)}, 'model answer', r, cases)
                    # tid monotonicity with a clock that is behind the data: new tid > last
                    t = H.Txn()
                    st.tpc_begin(t)
                    newtid = st._tid
                    st.tpc_abort(t)
                    if model and not newtid > model[-1][0]:
                        return fail({'history': repr(hist)}, 'tid > %r' % model[-1][0],
                                    'new tid %r' % newtid, cases)
                finally:
                    st.close()
            w.st = H.FileStorage(w.path)
        finally:
            w.close()
    # an EMPTY last transaction, clean close, reopen through the saved index
    w = H.World(record=False)
    try:
        cases += 1
        for i in range(4):
            w.commit([(p64(i + 1), b'd' * 30)])
        w.commit([])
        model = list(w.hist)
        w.st.close()
        st = H.FileStorage(w.path)
        try:
            r = H.check_queries(st, model, 'reopen after an empty last transaction')
            if r:
                return fail({'scenario': '4 commits, one empty transaction, close, reopen with .index'},
                            'model answer', r, cases)
        finally:
            st.close()
        w.st = H.FileStorage(w.path)
    finally:
        w.close()
    # clock regression: explicit tid far in the future, then an ordinary commit
    w = H.World(record=False)
    try:
        cases += 1
        t = H.Txn()
        future = p64(0x7000000000000000)
        w.st.tpc_begin(t, future)
        w.st.store(p64(1), z64, b'f', '', t)
        w.st.tpc_vote(t)
        w.st.tpc_finish(t)
        t2 = H.Txn()
        w.st.tpc_begin(t2)
        tid2 = w.st._tid
        w.st.tpc_abort(t2)
        if not tid2 > future:
            return fail({'scenario': 'explicit tid ahead of the clock, then ordinary tpc_begin'},
                        'tid > %r' % future, 'tid %r' % tid2, cases)
    finally:
        w.close()
    # the same histories on a MappingStorage (getTid / loadSerial / loadBefore / load / history / iterator)
    from ZODB.MappingStorage import MappingStorage
    for hi, hist in enumerate(histories(seed, 4 if tier == 'quick' else 40, tier)):
        st = MappingStorage()
        model = []
        try:
            for n, writes in enumerate(hist):
                t = H.Txn()
                st.tpc_begin(t, H.tid_of(n + 1))
                d = {}
                for oid, data in writes:
                    cur = [tid for tid, dd in model if oid in dd]
                    st.store(oid, cur[-1] if cur else z64, data, '', t)
                    d[oid] = data
                st.tpc_vote(t)
                model.append((st.tpc_finish(t), d))
                cases += 1
                r = H.check_queries(st, model, 'MappingStorage history#%d' % hi)
                if r:
                    return fail({'storage': 'MappingStorage', 'history': repr(hist), 'after': len(model)},
                                'model answer', r, cases)
        finally:
            st.close()
    return {'found': False, 'cases': cases}


# ---------------------------------------------------------------------------- C05
def snapshot(w):
    with open(w.path, 'rb') as f:
        data = f.read()
    return data[:w.st._pos]


def check_c05(seed, tier):
    cases = 0
    big = b'y' * 70000
    for phase in ('begin', 'store', 'vote'):
        for payload in (b'abc', big):
            w = H.World(record=True)
            try:
                w.commit([(p64(1), b'a')])
                w.commit([(p64(2), b'b')])
                before = snapshot(w)
                model = list(w.hist)
                cases += 1
                w.commit([(p64(1), payload), (p64(3), b'n')], stop_after=phase)
                w.st._file.flush()
                size = os.path.getsize(w.path)
                if size != len(before):
                    return fail({'abort_after': phase, 'payload': len(payload)},
                                'data file ends at the committed end (%d bytes)' % len(before),
                                'file size %d' % size, cases)
                r = H.check_queries(w.st, model, 'after abort(%s)' % phase)
                if r:
                    return fail({'abort_after': phase}, 'state before the transaction', r, cases)
                if w.st._tindex or w.st._nextpos or w.st._transaction is not None:
                    return fail({'abort_after': phase}, 'staging cleared',
                                'tindex=%r nextpos=%r' % (dict(w.st._tindex), w.st._nextpos), cases)
                if not w.st._commit_lock.acquire(False):
                    return fail({'abort_after': phase}, 'commit lock released', 'still held', cases)
                w.st._commit_lock.release()
                w.commit([(p64(4), b'next')])
                r = H.check_queries(w.st, w.hist, 'next transaction after abort(%s)' % phase)
                if r:
                    return fail({'abort_after': phase}, 'next transaction commits normally', r, cases)
            finally:
                w.close()
    # injected write failures during vote: every raw write of the vote, every torn length class
    for payload in (b'abc' * 10, big):
        # count raw ops of a clean run
        w = H.World(record=True)
        try:
            w.commit([(p64(1), b'a')])
            base_raw = w.rec.raw_count
            t = H.Txn()
            w.st.tpc_begin(t, H.tid_of(50))
            w.st.store(p64(1), w.hist[-1][0], payload, '', t)
            w.st.tpc_vote(t)
            nraw = w.rec.raw_count - base_raw
            w.st.tpc_abort(t)
        finally:
            w.close()
        for k in range(1, nraw + 1):
            for cut in (0, 1, 17, 1000):
                w = H.World(record=True)
                try:
                    w.commit([(p64(1), b'a')])
                    before = snapshot(w)
                    model = list(w.hist)
                    t = H.Txn()
                    w.st.tpc_begin(t, H.tid_of(50))
                    w.st.store(p64(1), w.hist[-1][0], payload, '', t)
                    w.rec.fail_at = (w.rec.raw_count + k, cut)
                    cases += 1
                    try:
                        w.st.tpc_vote(t)
                        voted = True
                    except OSError:
                        voted = False
                    w.rec.fail_at = None
                    if voted:
                        w.st.tpc_abort(t)
                        continue
                    w.st.tpc_abort(t)
                    try:
                        w.st._file.flush()
                    except OSError:
                        pass
                    size = os.path.getsize(w.path)
                    inp = {'fault': 'raw write #%d of tpc_vote fails after %d bytes' % (k, cut),
                           'payload': len(payload)}
                    if size != len(before):
                        return fail(inp, 'file ends at committed end (%d)' % len(before),
                                    'file size %d' % size, cases)
                    r = H.check_queries(w.st, model, 'after failed vote')
                    if r:
                        return fail(inp, 'state before the transaction', r, cases)
                    w.commit([(p64(2), b'ok')])
                    r = H.check_queries(w.st, w.hist, 'next transaction after failed vote')
                    if r:
                        return fail(inp, 'next transaction commits normally', r, cases)
                    with open(w.path, 'rb') as f:
                        img = f.read()
                    txns, end = H.parse_file(img)
                    if end != len(img):
                        return fail(inp, 'no bytes beyond the committed end',
                                    '%d stray bytes' % (len(img) - end), cases)
                finally:
                    w.close()
    # wrong-transaction calls are rejected without effect
    w = H.World(record=False)
    try:
        w.commit([(p64(1), b'a')])
        t, other = H.Txn(), H.Txn()
        w.st.tpc_begin(t, H.tid_of(60))
        w.st.store(p64(1), w.hist[-1][0], b'new', '', t)
        cases += 1
        for name, call in (('store', lambda: w.st.store(p64(2), z64, b'x', '', other)),
                           ('tpc_vote', lambda: w.st.tpc_vote(other)),
                           ('tpc_finish', lambda: w.st.tpc_finish(other))):
            try:
                call()
                return fail({'call': name + ' with another transaction'},
                            'StorageTransactionError', 'accepted', cases)
            except POSException.StorageTransactionError:
                pass
        w.st.tpc_abort(other)
        if w.st._transaction is not t:
            return fail({'call': 'tpc_abort(other)'}, 'no effect', 'transaction dropped', cases)
        w.st.tpc_vote(t)
        w.st.tpc_finish(t)
        if w.st.load(p64(1), '')[0] != b'new':
            return fail({'call': 'wrong-transaction calls'}, 'original transaction commits', 'lost', cases)
    finally:
        w.close()
    return {'found': False, 'cases': cases}


# ---------------------------------------------------------------------------- C03
def check_c03(seed, tier):
    cases = 0
    from ZODB.MappingStorage import MappingStorage
    from ZODB.DemoStorage import DemoStorage

    def mk_file():
        d = tempfile.mkdtemp(prefix='c03-')
        return H.FileStorage(os.path.join(d, 'Data.fs'), create=True), d

    for kind in ('file', 'mapping', 'demo'):
        for scenario in ('stale-writer', 'current-writer', 'stale-after-removal', 'readcurrent'):
            d = None
            if kind == 'file':
                st, d = mk_file()
            elif kind == 'mapping':
                st = MappingStorage()
            else:
                st = DemoStorage()
            try:
                cases += 1

                def commit(writes, serials, check=None):
                    t = H.Txn()
                    st.tpc_begin(t)
                    try:
                        for (oid, data), ser in zip(writes, serials):
                            st.store(oid, ser, data, '', t)
                        if check:
                            st.checkCurrentSerialInTransaction(check[0], check[1], t)
                        st.tpc_vote(t)
                        return st.tpc_finish(t)
                    except BaseException:
                        st.tpc_abort(t)
                        raise
                o = p64(1)
                t1 = commit([(o, b'v1')], [z64])
                t2 = commit([(o, b'v2')], [t1])
                if scenario == 'stale-writer':
                    try:
                        commit([(o, b'blind')], [t1])
                        return fail({'storage': kind, 'scenario': 'writer started from %r, current is %r'
                                     % (t1, t2)}, 'ConflictError', 'commit accepted', cases)
                    except POSException.ConflictError:
                        pass
                    if st.loadBefore(o, b'\x7f' + b'\xff' * 7)[:2] != (b'v2', t2):
                        return fail({'storage': kind, 'scenario': scenario}, 'nothing stored',
                                    'state changed', cases)
                elif scenario == 'current-writer':
                    commit([(o, b'v3')], [t2])
                elif scenario == 'stale-after-removal' and kind == 'file':
                    t = H.Txn()
                    st.tpc_begin(t)
                    st.deleteObject(o, t2, t)
                    st.tpc_vote(t)
                    st.tpc_finish(t)
                    try:
                        commit([(o, b'blind')], [t2])
                        return fail({'storage': kind, 'scenario': 'writer started before the removal'},
                                    'ConflictError', 'commit accepted', cases)
                    except POSException.ConflictError:
                        pass
                elif scenario == 'readcurrent':
                    try:
                        commit([(p64(2), b'w')], [z64], check=(o, t1))
                        return fail({'storage': kind, 'scenario': 'readCurrent on a changed object'},
                                    'ReadConflictError', 'commit accepted', cases)
                    except POSException.ReadConflictError:
                        pass
                    commit([(p64(2), b'w')], [z64], check=(o, t2))
            finally:
                st.close()
                if d:
                    shutil.rmtree(d, ignore_errors=True)
    return {'found': False, 'cases': cases}


# ---------------------------------------------------------------------------- C20
def check_c20(seed, tier):
    cases = 0
    from ZODB.MappingStorage import MappingStorage
    from ZODB.DemoStorage import DemoStorage
    d = tempfile.mkdtemp(prefix='c20-')
    try:
        path = os.path.join(d, 'Data.fs')
        st = H.FileStorage(path, create=True)
        issued = set()
        present = set()

        def alloc(n):
            nonlocal cases
            for _ in range(n):
                cases += 1
                o = st.new_oid()
                if o in issued or o in present:
                    return o
                issued.add(o)
            return None

        def commit(oids, restore=False):
            t = H.Txn()
            st.tpc_begin(t)
            for o in oids:
                if restore:
                    st.restore(o, st._tid, b'r', '', None, t)
                else:
                    st.store(o, z64, b's', '', t)
            st.tpc_vote(t)
            st.tpc_finish(t)
            present.update(oids)
        bad = alloc(3)
        commit([p64(0x1fe), p64(0x2ff)])
        bad = bad or alloc(3)
        commit([p64(0x100ff)], restore=True)
        bad = bad or alloc(300)
        # abort does not roll the counter back below an issued id
        t = H.Txn()
        st.tpc_begin(t)
        st.store(p64(0x20000), z64, b'x', '', t)
        st.tpc_abort(t)
        bad = bad or alloc(2)
        st.close()
        st = H.FileStorage(path)
        issued.clear()
        bad = bad or alloc(3)
        # give pack something to remove (superseded revisions), then pack in the same session
        for k in range(3):
            t = H.Txn()
            st.tpc_begin(t)
            st.store(p64(0x1fe), st.getTid(p64(0x1fe)), b'rev%d' % k, '', t)
            st.tpc_vote(t)
            st.tpc_finish(t)
        import time as _time
        _time.sleep(0.01)
        st.pack(_time.time(), lambda data: [], gc=False)
        bad = bad or alloc(3)
        st.close()
        # ids restored inside a transaction still in progress are already taken: an allocation made before the
        # vote must not hand them out again (copyTransactionsFrom with a concurrent allocator)
        st = H.FileStorage(path)
        issued.clear()
        t = H.Txn()
        st.tpc_begin(t)
        nxt = u64(st.new_oid())
        issued.add(p64(nxt))
        high = [p64(nxt + 1 + k) for k in range(4)]
        for o in high:
            st.restore(o, st._tid, b'r', '', None, t)
        present.update(high)
        in_flight = alloc(4)
        st.tpc_vote(t)
        st.tpc_finish(t)
        in_flight = in_flight or alloc(2)
        st.close()
        if in_flight:
            return fail({'scenario': 'n = new_oid(); tpc_begin; restore(n+1..n+4); new_oid() x4 before the vote; finish; '
                         'new_oid() x2'}, 'an id never issued and not present (restored ids count as present)',
                        'new_oid() returned %r' % in_flight, cases)
        if bad:
            return fail({'scenario': 'allocate / store / restore high ids / abort / reopen / pack on FileStorage'},
                        'an id never issued and not present', 'new_oid() returned %r' % bad, cases)
        for mk in (MappingStorage, DemoStorage):
            s = mk()
            got = set()
            for _ in range(50):
                cases += 1
                o = s.new_oid()
                if o in got:
                    return fail({'storage': mk.__name__}, 'distinct ids', 'repeated %r' % o, cases)
                got.add(o)
            s.close()
        # DemoStorage falls back to a random draw when the next sequential id is taken: an id that was issued, stored
        # and whose transaction was aborted is still an issued id (its holder may store it again)
        import random as _random
        base = MappingStorage()
        t = H.Txn()
        base.tpc_begin(t)
        base.store(p64(1001), z64, b'in the base', '', t)
        base.tpc_vote(t)
        base.tpc_finish(t)
        s = DemoStorage(base=base)
        real_randint = _random.randint
        script = [1000, 1000, 7000]
        _random.randint = lambda a, b: script.pop(0) if script else real_randint(a, b)
        try:
            s._next_oid = 1000
            got = [s.new_oid()]
            t = H.Txn()
            s.tpc_begin(t)
            s.store(got[0], z64, b'x', '', t)
            s.tpc_abort(t)
            for _ in range(3):
                cases += 1
                got.append(s.new_oid())
        finally:
            _random.randint = real_randint
        if len(set(got)) != len(got):
            return fail({'storage': 'DemoStorage', 'scenario': 'new_oid() -> X; store X; tpc_abort; the next candidate '
                         'is taken in the base and the random redraw lands on X again'}, 'distinct ids',
                        'issued %r' % [u64(o) for o in got], cases)
        s.close()
    finally:
        shutil.rmtree(d, ignore_errors=True)
    return {'found': False, 'cases': cases}
