#!/usr/bin/env python3
"""Soundness hygiene: list every `c.assume(...)` made inside setup()/mk() of a contract class.

A fact assumed in setup() is NOT checked at call sites (only `requires` is).  Each hit must be one of
  (a) a case split whose cases are exhaustive (same / other transaction, staged / not staged ...),
  (b) a machine-range fact (sizes < 2^62, bytes 0..255, hold counts >= 0),
  (c) repeated in requires() of the same class.
Anything else is a hidden precondition: the contract would be applied at call sites that do not
establish it (this is how the seeded change C01-2 escaped the first version of the `_abort` contract)."""
import ast
import glob
import os

HERE = os.path.dirname(os.path.dirname(os.path.abspath(__file__)))
for fn in sorted(glob.glob(os.path.join(HERE, 'contracts', '*.py'))):
    src = open(fn).read()
    tree = ast.parse(src)
    for cls in [n for n in ast.walk(tree) if isinstance(n, ast.ClassDef)]:
        has_req = any(isinstance(f, ast.FunctionDef) and f.name == 'requires' for f in cls.body)
        for f in cls.body:
            if isinstance(f, ast.FunctionDef) and f.name in ('setup', 'mk'):
                for n in ast.walk(f):
                    if isinstance(n, ast.Call) and isinstance(n.func, ast.Attribute) and n.func.attr == 'assume':
                        seg = ' '.join(ast.get_source_segment(src, n).split())
                        print('%s:%d %s.%s [requires() %s]: %s' % (
                            os.path.relpath(fn, HERE), n.lineno, cls.name, f.name,
                            'defined' if has_req else 'inherited/none', seg[:150]))
