#!/bin/bash
# usage: confirm_seed.sh <seed-dir>   (contains patch.diff, demo.py, meta.json)
# Confirms in a scratch worktree: demo PASS without patch, FAIL with patch, test-suite passes with patch.
set -u
D=$(readlink -f "$1"); N=$(basename "$D")
WT=/tmp/wt/confirm-$N-$$
git -C /repo worktree add --detach "$WT" HEAD >/dev/null 2>&1 || { echo "worktree failed"; exit 3; }
cleanup() { git -C /repo worktree remove --force "$WT" >/dev/null 2>&1; }
trap cleanup EXIT
cd "$WT"
PYTHONPATH=$WT/src timeout 300 /venv/bin/python "$D/demo.py" > "$D/confirm_clean.log" 2>&1; R0=$?
git apply "$D/patch.diff" || { echo "$N: patch does not apply"; exit 3; }
PYTHONPATH=$WT/src timeout 300 /venv/bin/python "$D/demo.py" > "$D/confirm_mutant.log" 2>&1; R1=$?
PYTHONPATH=$WT/src timeout 900 /venv/bin/python -m pytest -q -p no:cacheprovider --timeout=900 --continue-on-collection-errors > "$D/confirm_tests.log" 2>&1; RT=$?
T=$(grep -E "^[0-9]+ passed|passed" "$D/confirm_tests.log" | tail -1)
echo "$N: demo_clean_exit=$R0 demo_mutant_exit=$R1 tests_exit=$RT [$T]"
python3 - "$D" "$R0" "$R1" "$RT" "$T" <<'PY'
import json,sys
d,r0,r1,rt,t=sys.argv[1:6]
p=d+'/meta.json'
try: m=json.load(open(p))
except Exception: m={}
m['confirmed']={'demo_exit_without_patch':int(r0),'demo_exit_with_patch':int(r1),'pytest_exit_with_patch':int(rt),'pytest_summary':t,
 'ok': int(r0)==0 and int(r1)!=0 and int(rt)==0,
 'ran':['demo.py on clean scratch worktree','git apply patch.diff; demo.py','pinned pytest command with patch applied']}
json.dump(m,open(p,'w'),indent=1)
PY
