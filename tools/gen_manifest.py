#!/usr/bin/env python3
"""Render MANIFEST.json from props.py (claimed properties) + the not-applicable list."""
import json
import os
import sys

HERE = os.path.dirname(os.path.dirname(os.path.abspath(__file__)))
sys.path.insert(0, HERE)
import props  # noqa

ALL = ['C%02d' % i for i in range(1, 21)]
checks = []
for pid in ALL:
    cfg = props.PROPS.get(pid)
    if not cfg:
        continue
    checks.append({
        'property_id': pid,
        'quick_cmd': './check %s --tier quick' % pid,
        'thorough_cmd': './check %s --tier thorough' % pid,
        'evidence_file': 'evidence/%s.json' % pid,
        'replay_cmd_template': './check %s --replay {path}' % pid,
        'engine': 'pyvc',
        'level_claimed': {'category': cfg.get('level', 'proof'), 'text': cfg['text'],
                          'design_ref': cfg.get('design_ref', 'DESIGN.md section 5')},
        'level_note': cfg['note'],
        'technique': cfg.get('technique', props.TECH),
    })
na = [{'property_id': p, 'reason': props.NOT_YET.get(
    p, 'contracts for this property are not built yet in this revision (work in progress; see DESIGN.md section 9)')}
    for p in ALL if p not in props.PROPS]
m = {
    'version': 1,
    'setup_cmd': 'true',
    'hooks': {
        'guard': 'ZODB_VERIF',
        'enable': 'no hooks: contracts are sidecar files under /verif/contracts, the real source is re-parsed '
                  'with ast on every run, replays call the real functions with constructed inputs',
        'baseline_off_cmd': 'cd /repo && /venv/bin/python -m pytest -ra -q -p no:cacheprovider --timeout=900 '
                            '--continue-on-collection-errors',
        'source_commits': [],
        'add_only': True,
    },
    'engines': [{
        'name': 'pyvc', 'path': 'pyvc/', 'serves_properties': [c['property_id'] for c in checks],
        'kind_free_text': 'verification-condition generator: ast -> path-wise symbolic execution of the real ZODB '
                          'functions against sidecar contracts (requires/ensures/raises/frame/loop invariants/'
                          'crash invariants/fault injection), modular at call sites; obligations discharged by own '
                          'ground instantiation + z3 5.1 (quantified z3 and cvc5 1.0 as second stage); refuted '
                          'obligations replayed natively by replay/*.py under /venv',
    }],
    'checks': checks,
    'not_applicable': na,
    'notes': 'Findings and fixes: known_findings.json; seeded changes: seeded/*; design: DESIGN.md.',
}
with open(os.path.join(HERE, 'MANIFEST.json'), 'w') as f:
    json.dump(m, f, indent=1)
print('MANIFEST.json: %d checks, %d not_applicable' % (len(checks), len(na)))
