#!/bin/bash
# usage: mut.sh <file-rel-to-src> <python-regex-old> <new> <modules> [filters...]  -- engine self-test on a scratch copy
F=$1; OLD=$2; NEW=$3; MODS=$4; shift 4
D=/tmp/scratch/mut$$; mkdir -p $D; cp -r /repo/src $D/src
python3 - "$D/src/$F" "$OLD" "$NEW" <<'PY'
import sys,re
p,old,new=sys.argv[1:4]
s=open(p).read()
n=s.count(old)
if n!=1: print("pattern occurs",n,"times"); sys.exit(1)
open(p,'w').write(s.replace(old,new))
PY
[ $? -ne 0 ] && { rm -rf $D; exit 1; }
cd /verif && PYVC_REPO=$D PYVC_Z3_TIMEOUT_MS=8000 /opt/veriftools/pyvenv/bin/python -m pyvc.run $MODS "$@" 2>&1 | grep -vE "^\s*$" | cut -c1-200 | head -12
rm -rf $D
