#!/bin/bash
# usage: par_seed.sh <seed-dir-name> [prop ...]
# Runs the quick checks for a seeded change WITHOUT touching /repo: private copy of /verif (outputs go there) plus a
# scratch copy of the tree with the patch applied, check pointed at it with PYVC_REPO.  Safe to run several at once.
N=$1; shift
S=/verif/seeded/$N
PROPS="$@"
[ -z "$PROPS" ] && PROPS=$(python3 -c "import json;print(json.load(open('$S/meta.json'))['property'])")
W=/tmp/scratch/ps-$N-$$
mkdir -p $W/tree && rsync -a --exclude .git --exclude seeded --exclude replays /verif/ $W/verif/ && cp -r /repo/src $W/tree/src
(cd $W/tree && patch -s -p1 < $S/patch.diff) || { echo "$N: patch failed"; rm -rf $W; exit 3; }
cd $W/verif
for p in $PROPS; do
  PYVC_REPO=$W/tree ./check $p > $W/log 2>&1; rc=$?
  echo "== $N check $p exit=$rc $(grep -E '^C[0-9]+ tier' $W/log | cut -c1-120)"
  grep -E "^(VIOLATION|UNDECIDED|CHECKER)" $W/log | cut -c1-260 | head -${PS_LINES:-4}
done
rm -rf $W
