#!/bin/bash
# usage: seed_replay.sh <seed-name> <prop-lower>  -- run the replay/bounded harness natively on a scratch copy with the seeded patch
S=/verif/seeded/$1; P=$2
D=/tmp/scratch/sr$$; mkdir -p $D; cp -r /repo/src $D/src
(cd $D && patch -s -p1 < $S/patch.diff) || { echo patch failed; rm -rf $D; exit 1; }
cd /verif && PYTHONPATH=$D/src:/verif PYTHONDONTWRITEBYTECODE=1 timeout 900 /venv/bin/python -c "
import logging; logging.disable(logging.CRITICAL)
from replay import $P
import json
r = $P.search('${3:-x}', None, 0, 'quick')
print('$1 $P found=%s cases=%s' % (r.get('found'), r.get('cases')), (str(r.get('observed'))[:200] if r.get('found') else ''), r.get('error','')[:300] if r.get('error') else '')
" 2>&1 | tail -2
rm -rf $D
