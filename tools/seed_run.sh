#!/bin/bash
# usage: seed_run.sh <seed-name> <modules> [filters...] -- run pyvc.run on a scratch copy with the seeded patch applied
S=/verif/seeded/$1; MODS=$2; shift 2
D=/tmp/scratch/seed$$; mkdir -p $D; cp -r /repo/src $D/src
(cd $D && patch -s -p1 < $S/patch.diff) || { echo patch failed; rm -rf $D; exit 1; }
cd /verif && PYVC_REPO=$D PYVC_Z3_TIMEOUT_MS=8000 /opt/veriftools/pyvenv/bin/python -m pyvc.run $MODS "$@" 2>&1 | grep -vE "^\s*$" | cut -c1-220 | head -14
rm -rf $D
