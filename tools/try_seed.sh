#!/bin/bash
# usage: try_seed.sh <seed-dir-name> [prop ...]  -- apply seeded change to /repo, run quick checks, undo
S=/verif/seeded/$1; shift
PROPS="$@"
[ -z "$PROPS" ] && PROPS=$(python3 -c "import json;print(json.load(open('$S/meta.json'))['property'])")
cd /repo && git apply "$S/patch.diff" || { echo "patch failed"; exit 3; }
cd /verif
for p in $PROPS; do
  ./check $p > /tmp/try_seed_$$.log 2>&1; rc=$?
  echo "== $(basename $S) check $p exit=$rc"; grep -E "VIOLATION|UNDECIDED|CHECKER" /tmp/try_seed_$$.log | cut -c1-300 | head -8; grep -c KNOWN-FINDING /tmp/try_seed_$$.log
done
rm -f /tmp/try_seed_$$.log
git -C /repo checkout -- . 
